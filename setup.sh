#!/bin/bash
# Builds the verification machinery from files on disk only (offline).
set -e
cd /verif
export CARGO_NET_OFFLINE=true
mkdir -p bin evidence replays
clang -O2 -fPIC -shared -Wno-pointer-bool-conversion -o bin/libsimshim.so shim/simshim.c -ldl -lpthread
clang -O2 -o bin/ps shim/fakeps.c
cd sim
# keep the lock file in step with /repo's (same versions, nothing to fetch)
[ -f Cargo.lock ] || cp /repo/Cargo.lock Cargo.lock
cargo build --offline 2>&1 | grep -E "^(error|warning: unused)|Finished|could not" ; test ${PIPESTATUS[0]} -eq 0
