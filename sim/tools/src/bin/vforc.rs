//! `forc` rebuilt from /repo's working tree with the harness profile (the 3-line main() of
//! forc/src/main.rs re-created; everything else is forc's own code).
use forc_util::ForcCliResult;

#[tokio::main]
async fn main() -> ForcCliResult<()> {
    forc::cli::run_cli().await.into()
}
