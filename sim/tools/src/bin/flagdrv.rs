//! C25 driver: runs a script of dirty-flag operations with the real forc-util / sway-lsp code.
//! Script: comma-separated `op:file` with op ∈ mark | clear | check | cleanup. Operation boundaries are
//! reported to the simulator through the shim's `sim_mark` (an always-delivered event).
use forc_util::fs_locking::{is_file_dirty, PidFileLocking};
use lsp_types::Url;
use std::ffi::CString;
use sway_lsp::core::document::PidLockedFiles;

fn mark(s: &str) {
    type F = unsafe extern "C" fn(*const libc::c_char);
    static mut FPTR: Option<F> = None;
    unsafe {
        if FPTR.is_none() {
            let p = libc::dlsym(libc::RTLD_DEFAULT, b"sim_mark\0".as_ptr() as *const _);
            if p.is_null() {
                return;
            }
            FPTR = Some(std::mem::transmute::<*mut libc::c_void, F>(p));
        }
        let c = CString::new(s).unwrap();
        (FPTR.unwrap())(c.as_ptr());
    }
}

fn main() {
    let script = std::env::args().nth(1).unwrap_or_default();
    let quiet_observer = std::env::args().nth(2).is_some();
    let locks = PidLockedFiles::new();
    for op in script.split(',').filter(|s| !s.is_empty()) {
        let (k, f) = op.split_once(':').expect("op:file");
        let path = format!("/ws/{f}.sw");
        let url = Url::from_file_path(&path).unwrap();
        mark(&format!("begin {k} {f}"));
        let r = match k {
            "mark" => match locks.mark_file_as_dirty(&url) {
                Ok(()) => "Ok".to_string(),
                Err(e) => format!("Err {}", e.to_string().replace('\n', " ")),
            },
            "clear" => match locks.remove_dirty_flag(&url) {
                Ok(()) => "Ok".to_string(),
                Err(e) => format!("Err {}", e.to_string().replace('\n', " ")),
            },
            "check" => format!("{}", is_file_dirty(&path)),
            "cleanup" => match PidFileLocking::cleanup_stale_files() {
                Ok(v) => format!("Ok {}", v.len()),
                Err(e) => format!("Err {e}"),
            },
            _ => panic!("unknown op {k}"),
        };
        mark(&format!("end {k} {f} = {r}"));
        if quiet_observer {
            println!("{k} {f} = {r}");
        }
    }
    mark("done");
}
