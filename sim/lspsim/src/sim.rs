//! One simulated run of the real language server: workload (client messages) × schedule → observations.
use crate::model::{Change, Doc};
use crate::sched::{self, HandlerFut, Mode, RunOutcome, RunSpec, Shared};
use lsp_types::*;
use serde::{Deserialize, Serialize};
use std::collections::BTreeMap;
use std::path::{Path, PathBuf};
use std::sync::{Arc, Mutex};
use std::time::Duration;
use sway_lsp::server_state::ServerState;
use tower_lsp::LanguageServer;

#[derive(Clone, Debug, Serialize, Deserialize, PartialEq)]
pub enum Ev {
    Open { doc: usize },
    Change { doc: usize, version: i32, changes: Vec<Change> },
    Save { doc: usize },
    Close { doc: usize },
    Deleted { doc: usize },
    Req { doc: usize, kind: String },
}
impl Ev {
    pub fn name(&self) -> String {
        match self {
            Ev::Open { doc } => format!("didOpen(d{doc})"),
            Ev::Change { doc, version, changes } => format!("didChange(d{doc},v{version},{}{})", changes.len(), if changes.iter().all(|c| c.range.is_none()) { "full" } else { "ranged" }),
            Ev::Save { doc } => format!("didSave(d{doc})"),
            Ev::Close { doc } => format!("didClose(d{doc})"),
            Ev::Deleted { doc } => format!("watchedFiles.DELETED(d{doc})"),
            Ev::Req { doc, kind } => format!("{kind}(d{doc})"),
        }
    }
}

#[derive(Clone, Debug, Serialize, Deserialize, PartialEq)]
pub struct Workload {
    /// (path relative to the project root, initial text on disk)
    pub files: Vec<(String, String)>,
    pub manifest: String,
    pub events: Vec<Ev>,
    pub gc: bool,
}

pub struct SimOpts {
    pub io_enabled: bool,
    pub step_cap: usize,
    pub max_in_flight: usize,
    /// class F (true): the client waits for didOpen to complete before it sends anything else;
    /// class T (false): messages may be admitted while didOpen is still initialising (known finding C24-K1 / C23-K1)
    pub gate_first: bool,
    /// observe symbols/diagnostics of every file at the end (C26) — costs a few requests
    pub observe_all: bool,
    /// also compile the final text from scratch in a fresh server instance and observe it the same way (C26)
    pub reference: bool,
}

#[derive(Clone, Debug, Default)]
pub struct Observed {
    /// after each completed didChange handler: (event index, server text of that document or None)
    pub after_change: Vec<(usize, Option<String>)>,
    /// at quiescence, per document: server text, temp-workspace file content
    pub final_server_text: Vec<Option<String>>,
    pub final_temp_file: Vec<Option<String>>,
    /// probe results at quiescence, per document (None = the request did not return within the timeout)
    pub probe_symbols: Vec<Option<String>>,
    pub diagnostics: Option<String>,
    pub probe_hung: bool,
    /// observations of a fresh server on the same final text (C26 refinement oracle)
    pub ref_symbols: Vec<Option<String>>,
    pub ref_diagnostics: Option<String>,
    pub ref_failed: Option<String>,
}

pub struct SimResult {
    pub out: RunOutcome,
    pub obs: Observed,
    pub names: Vec<String>,
}

pub struct Env {
    pub shared: Arc<Shared>,
    pub rt: tokio::runtime::Runtime,
    pub scratch: PathBuf,
    pub counter: std::cell::Cell<u64>,
}

impl Env {
    pub fn new(scratch: &Path) -> Env {
        let shared = sched::install();
        let rt = tokio::runtime::Builder::new_current_thread().enable_all().max_blocking_threads(1).build().expect("runtime");
        std::fs::create_dir_all(scratch).expect("scratch");
        Env { shared, rt, scratch: scratch.to_path_buf(), counter: std::cell::Cell::new(0) }
    }
}

pub fn write_project(root: &Path, wl: &Workload, texts: Option<&[String]>) {
    let _ = std::fs::remove_dir_all(root);
    std::fs::create_dir_all(root.join("src")).expect("mkdir");
    std::fs::write(root.join("Forc.toml"), &wl.manifest).expect("manifest");
    for (i, (rel, text)) in wl.files.iter().enumerate() {
        let p = root.join(rel);
        if let Some(d) = p.parent() {
            std::fs::create_dir_all(d).expect("mkdir");
        }
        std::fs::write(p, texts.map(|t| t[i].as_str()).unwrap_or(text)).expect("write");
    }
}

fn doc_symbol_params(uri: &Url) -> DocumentSymbolParams {
    DocumentSymbolParams { text_document: TextDocumentIdentifier { uri: uri.clone() }, work_done_progress_params: Default::default(), partial_result_params: Default::default() }
}

fn to_lsp_changes(changes: &[Change]) -> Vec<TextDocumentContentChangeEvent> {
    changes
        .iter()
        .map(|c| TextDocumentContentChangeEvent { range: c.range.map(|(a, b, c2, d)| Range::new(Position::new(a, b), Position::new(c2, d))), range_length: None, text: c.text.clone() })
        .collect()
}

pub fn make_handler(state: &Arc<ServerState>, uris: &[Url], wl: &Workload, idx: usize) -> HandlerFut {
    let s = state.clone();
    let ev = &wl.events[idx];
    match ev.clone() {
        Ev::Open { doc } => {
            let uri = uris[doc].clone();
            let text = client_model(wl).open_text.get(&idx).cloned().unwrap_or_else(|| wl.files[doc].1.clone());
            Box::pin(async move { s.did_open(DidOpenTextDocumentParams { text_document: TextDocumentItem { uri, language_id: "sway".into(), version: 1, text } }).await })
        }
        Ev::Change { doc, version, changes } => {
            let uri = uris[doc].clone();
            let content_changes = to_lsp_changes(&changes);
            Box::pin(async move { s.did_change(DidChangeTextDocumentParams { text_document: VersionedTextDocumentIdentifier { uri, version }, content_changes }).await })
        }
        Ev::Save { doc } => {
            let uri = uris[doc].clone();
            Box::pin(async move { s.did_save(DidSaveTextDocumentParams { text_document: TextDocumentIdentifier { uri }, text: None }).await })
        }
        Ev::Close { doc } => {
            let uri = uris[doc].clone();
            Box::pin(async move { s.did_close(DidCloseTextDocumentParams { text_document: TextDocumentIdentifier { uri } }).await })
        }
        Ev::Deleted { doc } => {
            let uri = uris[doc].clone();
            Box::pin(async move { s.did_change_watched_files(DidChangeWatchedFilesParams { changes: vec![FileEvent { uri, typ: FileChangeType::DELETED }] }).await })
        }
        Ev::Req { doc, kind } => {
            let uri = uris[doc].clone();
            Box::pin(async move {
                match kind.as_str() {
                    "documentSymbol" => {
                        let _ = s.document_symbol(doc_symbol_params(&uri)).await;
                    }
                    "semanticTokens" => {
                        let _ = s.semantic_tokens_full(SemanticTokensParams { text_document: TextDocumentIdentifier { uri }, work_done_progress_params: Default::default(), partial_result_params: Default::default() }).await;
                    }
                    "inlayHint" => {
                        let _ = s.inlay_hint(InlayHintParams { text_document: TextDocumentIdentifier { uri }, range: Range::new(Position::new(0, 0), Position::new(1000, 0)), work_done_progress_params: Default::default() }).await;
                    }
                    _ => {
                        let _ = s.code_lens(CodeLensParams { text_document: TextDocumentIdentifier { uri }, work_done_progress_params: Default::default(), partial_result_params: Default::default() }).await;
                    }
                }
            })
        }
    }
}

fn server_text(state: &ServerState, uri: &Url) -> Option<String> {
    let temp = state.uri_from_workspace(uri).ok()?;
    state.documents.get_text_document(&temp).ok().map(|d| d.get_text().to_string())
}

pub fn diagnostics_text(state: &ServerState, any_uri: &Url) -> Option<String> {
    let (_, session) = state.uri_and_session_from_workspace(any_uri).ok()?;
    let d = session.diagnostics.read();
    let mut v: Vec<String> = vec![];
    for (p, ds) in d.iter() {
        let name = p.file_name().map(|n| n.to_string_lossy().to_string()).unwrap_or_default();
        for x in ds.errors.iter().chain(ds.warnings.iter()) {
            v.push(format!("{name} {}:{}-{}:{} {:?} {:?} {}", x.range.start.line, x.range.start.character, x.range.end.line, x.range.end.character, x.severity, x.code, x.message.replace('\n', " ")));
        }
    }
    v.sort();
    Some(v.join("\n"))
}

/// Runs `wl` under `mode`. The project is written to a fresh directory, a fresh `ServerState` is created
/// with the scheduler active, the scheduled phase runs to quiescence, then the probes run unscheduled.
pub fn simulate(env: &Env, wl: &Workload, mode: Mode, opts: &SimOpts) -> SimResult {
    let n = env.counter.get();
    env.counter.set(n + 1);
    let root = env.scratch.join(format!("proj{n}")).join("pkg");
    write_project(&root, wl, None);
    let uris: Vec<Url> = wl.files.iter().map(|(rel, _)| Url::from_file_path(root.join(rel)).unwrap()).collect();
    let _guard = env.rt.enter();
    let state: Arc<ServerState> = sched::start(&env.shared, || {
        let s = ServerState::default();
        s.config.write().garbage_collection.gc_enabled = wl.gc;
        Arc::new(s)
    });
    let names: Vec<String> = wl.events.iter().map(|e| e.name()).collect();
    let after_change: Mutex<Vec<(usize, Option<String>)>> = Mutex::new(vec![]);
    let make = |i: usize| make_handler(&state, &uris, wl, i);
    let mut on_complete = |i: usize| {
        if let Ev::Change { doc, .. } = &wl.events[i] {
            after_change.lock().unwrap().push((i, server_text(&state, &uris[*doc])));
        }
    };
    let st2 = state.clone();
    let out = sched::run(
        &env.shared,
        &env.rt,
        RunSpec {
            mode,
            step_cap: opts.step_cap,
            io_enabled: opts.io_enabled,
            max_in_flight: opts.max_in_flight,
            gate_first: opts.gate_first,
            names: names.clone(),
            make: &make,
            on_complete: &mut on_complete,
            state_probe: Some(Box::new(move || st2.is_compiling.load(std::sync::atomic::Ordering::SeqCst) as u64)),
        },
    );
    let mut obs = Observed { after_change: after_change.into_inner().unwrap(), ..Default::default() };
    // ---- unscheduled phase: the system has settled (or the run was abandoned); observe
    // a run that already shows a hang (handlers parked at quiescence) or a dead actor is not probed further
    let abandoned = out.cap_hit || out.infeasible || !out.pending_at_quiescence.is_empty() || !out.panics.is_empty() || out.handler_deadlock.is_some();
    if !abandoned {
        for (i, uri) in uris.iter().enumerate() {
            obs.final_server_text.push(server_text(&state, uri));
            obs.final_temp_file.push(state.uri_from_workspace(uri).ok().and_then(|t| std::fs::read_to_string(t.path()).ok()));
            if i == 0 || opts.observe_all {
                let s2 = state.clone();
                let u2 = uri.clone();
                let r = env.rt.block_on(async move { tokio::time::timeout(Duration::from_secs(3), s2.document_symbol(doc_symbol_params(&u2))).await });
                match r {
                    Err(_) => {
                        obs.probe_hung = true;
                        obs.probe_symbols.push(None);
                    }
                    Ok(v) => obs.probe_symbols.push(Some(serde_json::to_string(&v.ok().flatten()).unwrap_or_default().replace(root.to_str().unwrap_or(""), "$ROOT"))),
                }
            } else {
                obs.probe_symbols.push(None);
            }
            if obs.probe_hung {
                break;
            }
        }
        if !obs.probe_hung {
            obs.diagnostics = diagnostics_text(&state, &uris[0]);
        }
    }
    // ---- reference: the same final text compiled from scratch by a fresh instance of the same implementation
    if opts.reference && !abandoned && !obs.probe_hung {
        let m = client_model(wl);
        let texts: Vec<String> = m.docs.iter().map(|d| d.text.clone()).collect();
        let root2 = env.scratch.join(format!("proj{n}")).join("ref").join("pkg");
        write_project(&root2, wl, Some(&texts));
        let uris2: Vec<Url> = wl.files.iter().map(|(rel, _)| Url::from_file_path(root2.join(rel)).unwrap()).collect();
        let fresh = Arc::new(ServerState::default()); // its worker is not an actor: hooks pass through
        fresh.config.write().garbage_collection.gc_enabled = wl.gc;
        let f2 = fresh.clone();
        let u0 = uris2[0].clone();
        let t0 = texts[0].clone();
        let opened = env.rt.block_on(async move { tokio::time::timeout(Duration::from_secs(180), f2.did_open(DidOpenTextDocumentParams { text_document: TextDocumentItem { uri: u0, language_id: "sway".into(), version: 1, text: t0 } })).await });
        if opened.is_err() {
            obs.ref_failed = Some("fresh server: didOpen did not return within 180 s".into());
        } else {
            for uri in &uris2 {
                let s2 = fresh.clone();
                let u2 = uri.clone();
                match env.rt.block_on(async move { tokio::time::timeout(Duration::from_secs(10), s2.document_symbol(doc_symbol_params(&u2))).await }) {
                    Err(_) => {
                        obs.ref_failed = Some("fresh server: documentSymbol timed out".into());
                        break;
                    }
                    Ok(v) => obs.ref_symbols.push(Some(serde_json::to_string(&v.ok().flatten()).unwrap_or_default().replace(root2.to_str().unwrap_or(""), "$ROOT"))),
                }
            }
            obs.ref_diagnostics = diagnostics_text(&fresh, &uris2[0]);
        }
        let _ = fresh.shutdown_server();
    }
    // ---- teardown
    let _ = state.shutdown_server();
    // give the worker a moment to see Terminate, then drop everything of this run
    drop(make);
    let _ = std::fs::remove_dir_all(root.parent().unwrap());
    // dirty-flag files of this run's documents would otherwise pile up in $HOME and make every later
    // PidFileLocking::new() spawn one `ps` per leftover file
    if let Some(home) = std::env::var_os("HOME") {
        let _ = std::fs::remove_dir_all(PathBuf::from(home).join(".forc/.lsp-locks"));
    }
    SimResult { out, obs, names }
}

/// Client-side model of all documents after applying the events in order. A change that is invalid in the
/// model leaves the document untouched (and is reported in `invalid`).
pub struct ClientModel {
    pub docs: Vec<Doc>,
    pub invalid: Vec<usize>,
    /// text of each doc after each Change event index
    pub after: BTreeMap<usize, String>,
    /// text of each doc *before* each Change event index
    pub before: BTreeMap<usize, String>,
    pub deleted: Vec<bool>,
    /// text of the document as last saved (what a re-opened document shows after unsaved changes were discarded)
    pub saved: Vec<String>,
    pub opened: Vec<bool>,
    /// text the client sends with each didOpen (event index -> text)
    pub open_text: BTreeMap<usize, String>,
    /// texts of all documents after each event (index = event index)
    pub snap: Vec<Vec<String>>,
}
pub fn client_model(wl: &Workload) -> ClientModel {
    let mut m = ClientModel { docs: wl.files.iter().map(|f| Doc::new(&f.1)).collect(), invalid: vec![], after: BTreeMap::new(), before: BTreeMap::new(), deleted: vec![false; wl.files.len()], saved: wl.files.iter().map(|f| f.1.clone()).collect(), opened: vec![false; wl.files.len()], open_text: BTreeMap::new(), snap: vec![] };
    for (i, ev) in wl.events.iter().enumerate() {
        match ev {
            Ev::Change { doc, changes, .. } => {
                m.before.insert(i, m.docs[*doc].text.clone());
                // The changes of one notification are applied in order. An invalid change alters nothing; the
                // generator only ever puts an invalid change last in a notification, so what happens to
                // changes after an invalid one (unspecified) never matters.
                for c in changes {
                    if m.docs[*doc].apply(c).is_err() {
                        m.invalid.push(i);
                        break;
                    }
                }
                m.after.insert(i, m.docs[*doc].text.clone());
            }
            Ev::Deleted { doc } => m.deleted[*doc] = true,
            Ev::Save { doc } => m.saved[*doc] = m.docs[*doc].text.clone(),
            Ev::Close { doc } => m.opened[*doc] = false,
            Ev::Open { doc } => {
                // opening shows the saved state: unsaved changes of a closed document are gone
                if !m.opened[*doc] {
                    m.docs[*doc] = Doc::new(&m.saved[*doc].clone());
                    m.opened[*doc] = true;
                }
                m.open_text.insert(i, m.docs[*doc].text.clone());
            }
            _ => {}
        }
        m.snap.push(m.docs.iter().map(|d| d.text.clone()).collect());
    }
    m
}
