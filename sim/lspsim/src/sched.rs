//! Engine B core: the baton scheduler over the real language server. DESIGN.md §4B.
//!
//! Exactly one of {dispatcher thread, compile worker thread} runs at a time. The dispatcher thread is
//! the decision maker: at every scheduling point it lists the enabled actions, picks one (seeded policy
//! or forced list), records it, and either continues itself or lets the worker run one segment (until
//! the worker's next hook point). Background file I/O of tokio's blocking pool is an action too
//! (`IO`, see `io_step`).
use simcore::{harness_error, Rng};
use std::cell::{Cell, RefCell};
use std::collections::{BTreeMap, BTreeSet};
use std::future::Future;
use std::pin::Pin;
use std::sync::atomic::{AtomicBool, Ordering};
use std::sync::{Arc, Condvar, Mutex, OnceLock};
use std::task::{Context, Poll, Wake, Waker};
use std::time::Duration;
use sway_core::verif_hooks::{self, Hooks};

#[derive(Clone, Debug, PartialEq, Eq, PartialOrd, Ord)]
pub enum Choice {
    /// the handler being polled continues past its hook point
    C,
    /// the compile worker runs one segment
    W,
    /// the dispatcher admits (creates and first-polls) the next client message
    A,
    /// the dispatcher polls ready handler `id`
    P(usize),
    /// one batch of queued blocking-pool file operations runs
    IO,
}
impl Choice {
    pub fn code(&self) -> String {
        match self {
            Choice::C => "C".into(),
            Choice::W => "W".into(),
            Choice::A => "A".into(),
            Choice::IO => "IO".into(),
            Choice::P(i) => format!("P{i}"),
        }
    }
    pub fn parse(s: &str) -> Option<Choice> {
        match s {
            "C" => Some(Choice::C),
            "W" => Some(Choice::W),
            "A" => Some(Choice::A),
            "IO" => Some(Choice::IO),
            _ => s.strip_prefix('P').and_then(|n| n.parse().ok()).map(Choice::P),
        }
    }
}

#[derive(Clone, Copy)]
struct PredPtr(*const (dyn Fn() -> bool));
unsafe impl Send for PredPtr {}

#[derive(Clone, Copy, PartialEq, Debug)]
enum WState {
    Absent,
    Running,
    Parked,
    Gone,
}

struct Inner {
    active: bool,
    expect_worker: bool,
    wstate: WState,
    wsite: &'static str,
    wpred: Option<PredPtr>,
    go: bool,
    panics: Vec<String>,
    epoch: u64,
}
pub struct Shared {
    m: Mutex<Inner>,
    cv: Condvar,
}

#[derive(Clone, Copy, PartialEq)]
enum Role {
    None,
    Dispatcher,
    Worker,
    /// a thread that hit a hook while no simulated run was active (the compile worker of a reference
    /// server, a probe request): it must never be mistaken for the worker of a later run
    Foreign,
}
thread_local! {
    static ROLE: Cell<Role> = const { Cell::new(Role::None) };
    static WEPOCH: Cell<u64> = const { Cell::new(0) };
    static CTL: RefCell<Option<Ctl>> = const { RefCell::new(None) };
}

static SHARED: OnceLock<Arc<Shared>> = OnceLock::new();

struct H;
impl Hooks for H {
    fn point(&self, site: &'static str) {
        hook(site, None)
    }
    fn wait_until(&self, site: &'static str, pred: &dyn Fn() -> bool) {
        hook(site, Some(pred))
    }
}

/// Install the process-wide hooks (idempotent) and a panic hook that records panics of actors.
pub fn install() -> Arc<Shared> {
    let sh = SHARED
        .get_or_init(|| {
            let sh = Arc::new(Shared { m: Mutex::new(Inner { active: false, expect_worker: false, wstate: WState::Absent, wsite: "", wpred: None, go: false, panics: vec![], epoch: 0 }), cv: Condvar::new() });
            verif_hooks::install(Box::leak(Box::new(H)));
            let sh2 = sh.clone();
            let prev = std::panic::take_hook();
            std::panic::set_hook(Box::new(move |info| {
                let role = ROLE.with(|r| r.get());
                let msg = format!("{info}").replace('\n', " ");
                if std::env::var("LSPSIM_BACKTRACE").is_ok() {
                    // debugging aid: where did an actor panic
                    eprintln!("PANIC {msg}\n{}", std::backtrace::Backtrace::force_capture());
                }
                if role == Role::Worker || role == Role::Dispatcher {
                    if let Ok(mut g) = sh2.m.lock() {
                        g.panics.push(format!("{}: {}", if role == Role::Worker { "compile worker" } else { "handler" }, msg.chars().take(300).collect::<String>()));
                        if role == Role::Worker {
                            g.wstate = WState::Gone;
                        }
                        sh2.cv.notify_all();
                    }
                } else {
                    prev(info);
                }
            }));
            sh
        })
        .clone();
    sh
}

fn hook(site: &'static str, pred: Option<&dyn Fn() -> bool>) {
    let Some(sh) = SHARED.get() else { return };
    match ROLE.with(|r| r.get()) {
        Role::Dispatcher => dispatcher_hook(site, pred),
        Role::Worker => worker_hook(sh, site, pred),
        Role::Foreign => {}
        Role::None => {
            // the compile worker of the simulated server registers on its first hook
            let mut g = sh.m.lock().unwrap();
            if g.active && g.expect_worker {
                g.expect_worker = false;
                let e = g.epoch;
                drop(g);
                WEPOCH.with(|w| w.set(e));
                ROLE.with(|r| r.set(Role::Worker));
                worker_hook(sh, site, pred);
            } else if !g.active {
                drop(g);
                ROLE.with(|r| r.set(Role::Foreign));
            }
        }
    }
}

fn worker_hook(sh: &Arc<Shared>, site: &'static str, pred: Option<&dyn Fn() -> bool>) {
    let mut g = sh.m.lock().unwrap();
    // the worker of an earlier run (still winding down) passes straight through
    if !g.active || WEPOCH.with(|w| w.get()) != g.epoch {
        return;
    }
    g.wsite = site;
    g.wpred = pred.map(|p| PredPtr(unsafe { std::mem::transmute::<&dyn Fn() -> bool, *const (dyn Fn() -> bool)>(p) }));
    let my_epoch = g.epoch;
    g.wstate = WState::Parked;
    sh.cv.notify_all();
    // a worker still parked here when its run ends must never consume the `go` of a later run
    while g.active && g.epoch == my_epoch && !g.go {
        g = sh.cv.wait(g).unwrap();
    }
    if g.epoch != my_epoch {
        return;
    }
    g.go = false;
    g.wpred = None;
    if g.active {
        g.wstate = WState::Running;
    }
}

// ------------------------------------------------------------------ I/O blocker
struct Blocker {
    st: Mutex<(bool, bool)>, // (started, released)
    cv: Condvar,
}
impl Blocker {
    fn submit(h: &tokio::runtime::Handle) -> Arc<Blocker> {
        let b = Arc::new(Blocker { st: Mutex::new((false, false)), cv: Condvar::new() });
        let b2 = b.clone();
        h.spawn_blocking(move || {
            let mut g = b2.st.lock().unwrap();
            g.0 = true;
            b2.cv.notify_all();
            while !g.1 {
                g = b2.cv.wait(g).unwrap();
            }
        });
        b
    }
    fn wait_started(&self) {
        let mut g = self.st.lock().unwrap();
        let mut waited = 0;
        while !g.0 {
            let (g2, _) = self.cv.wait_timeout(g, Duration::from_millis(100)).unwrap();
            g = g2;
            waited += 1;
            if waited > 1200 {
                harness_error("lspsim: blocking-pool blocker did not start within 120 s (watchdog)");
            }
        }
    }
    fn release(&self) {
        let mut g = self.st.lock().unwrap();
        g.1 = true;
        self.cv.notify_all();
    }
}

// ------------------------------------------------------------------ policy
#[derive(Clone, Debug)]
pub struct Policy {
    /// weights for C, W, A, P, IO
    pub w: [u64; 5],
    /// percent chance to repeat the previous kind of choice when it is still enabled
    pub stick: u64,
    pub name: String,
}
impl Policy {
    pub fn gen(rng: &mut Rng) -> Policy {
        let ws = [1u64, 1, 2, 5, 20];
        let w = [*rng.pick(&ws), *rng.pick(&ws), *rng.pick(&ws), *rng.pick(&ws), *rng.pick(&ws)];
        let stick = *rng.pick(&[0u64, 0, 50, 80, 95]);
        Policy { w, stick, name: format!("w{:?}s{}", w, stick) }
    }
}
fn kind_idx(c: &Choice) -> usize {
    match c {
        Choice::C => 0,
        Choice::W => 1,
        Choice::A => 2,
        Choice::P(_) => 3,
        Choice::IO => 4,
    }
}
/// The benign sequential schedule: finish the handler segment, complete I/O at once, let the worker run
/// to its next blocking point, resume ready handlers in arrival order, admit the next message last.
pub fn default_choice(en: &[Choice]) -> Choice {
    for k in [0usize, 4, 1, 3, 2] {
        let mut c: Vec<&Choice> = en.iter().filter(|c| kind_idx(c) == k).collect();
        c.sort();
        if let Some(x) = c.first() {
            return (*x).clone();
        }
    }
    unreachable!("default_choice on empty set")
}

pub enum Mode {
    Seeded { rng: Rng, policy: Policy },
    Forced { list: Vec<Choice>, pos: usize, tolerant: bool },
}

#[derive(Clone, Debug)]
pub struct Step {
    pub n: usize,
    pub choice: Choice,
    /// where the chosen actor was (handler site for C, worker site for W, message name for A/P)
    pub site: String,
    /// site of the handler that is mid-poll when this decision is taken ("" at top level)
    pub in_handler: String,
    pub deviates: bool,
    pub io_dirty: bool,
}

pub struct Ctl {
    shared: Arc<Shared>,
    mode: Mode,
    pub steps: Vec<Step>,
    pub step_cap: usize,
    pub cap_hit: bool,
    pub infeasible: bool,
    pub handler_deadlock: Option<String>,
    rt: tokio::runtime::Handle,
    head: Option<Arc<Blocker>>,
    io_dirty: bool,
    pub io_enabled: bool,
    last_kind: Option<usize>,
    cur_handler: String,
    pub states: BTreeSet<u64>,
    pub worker_trace: Vec<(usize, &'static str)>,
    pub io_steps: usize,
    pub state_probe: Option<Box<dyn Fn() -> u64>>,
}

impl Ctl {
    fn worker_enabled(&self) -> bool {
        let g = self.shared.m.lock().unwrap();
        g.wstate == WState::Parked && g.wpred.map_or(true, |p| unsafe { (*p.0)() })
    }
    fn worker_site(&self) -> &'static str {
        self.shared.m.lock().unwrap().wsite
    }
    fn choose(&mut self, en: &[Choice], site_of: impl Fn(&Choice) -> String) -> Option<Choice> {
        if self.steps.len() >= self.step_cap {
            self.cap_hit = true;
            return None;
        }
        let def = default_choice(en);
        let ch = match &mut self.mode {
            Mode::Seeded { rng, policy } => {
                let repeat = self.last_kind.and_then(|k| en.iter().find(|c| kind_idx(c) == k).cloned());
                match repeat {
                    Some(c) if policy.stick > 0 && rng.chance(policy.stick, 100) => c,
                    _ => {
                        let total: u64 = en.iter().map(|c| policy.w[kind_idx(c)]).sum();
                        let mut x = rng.next_u64() % total;
                        let mut pick = en[0].clone();
                        for c in en {
                            let w = policy.w[kind_idx(c)];
                            if x < w {
                                pick = c.clone();
                                break;
                            }
                            x -= w;
                        }
                        pick
                    }
                }
            }
            Mode::Forced { list, pos, tolerant } => {
                let mut out = None;
                while *pos < list.len() {
                    let c = list[*pos].clone();
                    *pos += 1;
                    if en.contains(&c) {
                        out = Some(c);
                        break;
                    } else if !*tolerant {
                        self.infeasible = true;
                        return None;
                    }
                }
                match out {
                    Some(c) => c,
                    None => {
                        if *tolerant {
                            def.clone()
                        } else {
                            // strict list exhausted although actions are enabled: the recorded run ended here
                            self.infeasible = true;
                            return None;
                        }
                    }
                }
            }
        };
        self.last_kind = Some(kind_idx(&ch));
        if let Some(f) = &self.state_probe {
            let mut h = f();
            h ^= simcore::fnv64(self.worker_site().as_bytes()).rotate_left(7) ^ simcore::fnv64(self.cur_handler.as_bytes()).rotate_left(23) ^ (self.io_dirty as u64) << 61;
            self.states.insert(h);
        }
        self.steps.push(Step { n: self.steps.len(), choice: ch.clone(), site: site_of(&ch), in_handler: self.cur_handler.clone(), deviates: ch != def, io_dirty: self.io_dirty });
        Some(ch)
    }
    /// Let the worker run until its next hook point (or until it dies).
    fn run_worker_segment(&mut self) {
        let mut g = self.shared.m.lock().unwrap();
        let from = g.wsite;
        g.wstate = WState::Running;
        g.go = true;
        self.shared.cv.notify_all();
        let mut waited = 0;
        while g.wstate == WState::Running {
            let (g2, _) = self.shared.cv.wait_timeout(g, Duration::from_millis(200)).unwrap();
            g = g2;
            waited += 1;
            if waited > 600 {
                dump_threads();
                harness_error(&format!("lspsim: the compile worker made no progress for 120 s after {from} (watchdog; thread dump in /tmp/lspsim-watchdog-{}.txt)", std::process::id()));
            }
        }
        self.worker_trace.push((self.steps.len(), from));
    }
    fn io_step(&mut self) {
        // everything queued behind the head blocker runs now, in submission order; a new blocker parks behind it
        let nb = Blocker::submit(&self.rt);
        if let Some(h) = self.head.take() {
            h.release();
        }
        nb.wait_started();
        self.head = Some(nb);
        self.io_dirty = false;
        self.io_steps += 1;
    }
    pub fn panics(&self) -> Vec<String> {
        self.shared.m.lock().unwrap().panics.clone()
    }
}

fn dispatcher_hook(site: &'static str, pred: Option<&dyn Fn() -> bool>) {
    CTL.with(|c| {
        let mut b = c.borrow_mut();
        let Some(ctl) = b.as_mut() else { return };
        if ctl.cap_hit || ctl.infeasible {
            return; // the run is being abandoned: let the handler run out
        }
        ctl.cur_handler = site.to_string();
        loop {
            let mut en = vec![];
            if pred.map_or(true, |p| p()) {
                en.push(Choice::C);
            }
            if ctl.worker_enabled() {
                en.push(Choice::W);
            }
            if ctl.io_enabled && ctl.io_dirty {
                en.push(Choice::IO);
            }
            if en.is_empty() {
                ctl.handler_deadlock = Some(site.to_string());
                drop(b);
                panic!("lspsim: handler can never continue past {site}");
            }
            let ws = ctl.worker_site();
            let Some(ch) = ctl.choose(&en, |c| match c {
                Choice::C => site.to_string(),
                Choice::W => ws.to_string(),
                _ => String::new(),
            }) else {
                break;
            };
            match ch {
                Choice::C => break,
                Choice::W => ctl.run_worker_segment(),
                Choice::IO => ctl.io_step(),
                _ => unreachable!(),
            }
        }
        ctl.cur_handler.clear();
    })
}

// ------------------------------------------------------------------ tasks
struct TaskWaker {
    ready: AtomicBool,
}
impl Wake for TaskWaker {
    fn wake(self: Arc<Self>) {
        self.ready.store(true, Ordering::SeqCst);
    }
    fn wake_by_ref(self: &Arc<Self>) {
        self.ready.store(true, Ordering::SeqCst);
    }
}
pub type HandlerFut = Pin<Box<dyn Future<Output = ()> + Send>>;
struct Task {
    id: usize,
    name: String,
    fut: HandlerFut,
    w: Arc<TaskWaker>,
}

pub struct RunOutcome {
    pub steps: Vec<Step>,
    pub pending_at_quiescence: Vec<String>,
    pub completed: Vec<(usize, usize)>, // (task id, step index at completion)
    pub admitted: Vec<(usize, usize)>,  // (task id, step index at admission)
    pub cap_hit: bool,
    pub infeasible: bool,
    pub panics: Vec<String>,
    pub handler_deadlock: Option<String>,
    pub states: usize,
    pub worker_trace: Vec<(usize, &'static str)>,
    pub io_steps: usize,
}

pub struct RunSpec<'a> {
    pub mode: Mode,
    pub step_cap: usize,
    pub io_enabled: bool,
    pub max_in_flight: usize,
    /// the client sends nothing before the first message's handler (didOpen) has completed
    pub gate_first: bool,
    pub names: Vec<String>,
    /// creates the handler future of client message `i`
    pub make: &'a dyn Fn(usize) -> HandlerFut,
    /// called on the dispatcher thread right after handler `i` completed (op-by-op oracles)
    pub on_complete: &'a mut dyn FnMut(usize),
    pub state_probe: Option<Box<dyn Fn() -> u64>>,
}

/// Create the server inside `mk_state` with the scheduler active, so that its compile worker registers.
pub fn start<T>(shared: &Arc<Shared>, mk_state: impl FnOnce() -> T) -> T {
    {
        let mut g = shared.m.lock().unwrap();
        g.active = true;
        g.epoch += 1;
        g.expect_worker = true;
        g.wstate = WState::Absent;
        g.wsite = "";
        g.wpred = None;
        g.go = false;
        g.panics.clear();
    }
    ROLE.with(|r| r.set(Role::Dispatcher));
    let t = mk_state();
    // wait for the worker to register and park at its first hook
    let mut g = shared.m.lock().unwrap();
    let mut waited = 0;
    while g.wstate != WState::Parked {
        let (g2, _) = shared.cv.wait_timeout(g, Duration::from_millis(50)).unwrap();
        g = g2;
        waited += 1;
        if waited > 1200 {
            harness_error("lspsim: the server's compile worker never reached its first hook point (hooks missing from /repo?)");
        }
    }
    t
}

/// Run the scheduled phase until quiescence (no enabled action), the step cap, or an infeasible forced choice.
pub fn run(shared: &Arc<Shared>, rt: &tokio::runtime::Runtime, spec: RunSpec) -> RunOutcome {
    // The blocker is always installed so that no file operation ever completes at a moment the
    // simulator did not choose. With `io_enabled` the completion is a scheduler choice (`IO`); without it
    // every poll is followed by an automatic io-step (I/O completes "at once": the fault-free configuration).
    let head = {
        let b = Blocker::submit(rt.handle());
        b.wait_started();
        Some(b)
    };
    CTL.with(|c| {
        *c.borrow_mut() = Some(Ctl {
            shared: shared.clone(),
            mode: spec.mode,
            steps: vec![],
            step_cap: spec.step_cap,
            cap_hit: false,
            infeasible: false,
            handler_deadlock: None,
            rt: rt.handle().clone(),
            head,
            io_dirty: false,
            io_enabled: spec.io_enabled,
            last_kind: None,
            cur_handler: String::new(),
            states: BTreeSet::new(),
            worker_trace: vec![],
            io_steps: 0,
            state_probe: spec.state_probe,
        })
    });
    let mut tasks: Vec<Task> = vec![];
    let mut next = 0usize;
    let n = spec.names.len();
    let mut completed = vec![];
    let mut admitted = vec![];
    let on_complete = spec.on_complete;
    loop {
        // top-level decision
        let decision = CTL.with(|c| {
            let mut b = c.borrow_mut();
            let ctl = b.as_mut().unwrap();
            if ctl.cap_hit || ctl.infeasible || ctl.handler_deadlock.is_some() {
                return None;
            }
            let mut en = vec![];
            if ctl.worker_enabled() {
                en.push(Choice::W);
            }
            for t in &tasks {
                if t.w.ready.load(Ordering::SeqCst) {
                    en.push(Choice::P(t.id));
                }
            }
            if next < n && tasks.len() < spec.max_in_flight && (next == 0 || !spec.gate_first || completed.iter().any(|(id, _)| *id == 0)) {
                en.push(Choice::A);
            }
            if ctl.io_enabled && ctl.io_dirty {
                en.push(Choice::IO);
            }
            if en.is_empty() {
                return None;
            }
            let ws = ctl.worker_site();
            let names = &spec.names;
            let ch = ctl.choose(&en, |c| match c {
                Choice::W => ws.to_string(),
                Choice::A => names[next].clone(),
                Choice::P(i) => names[*i].clone(),
                _ => String::new(),
            })?;
            match ch {
                Choice::W => {
                    ctl.run_worker_segment();
                    Some(None)
                }
                Choice::IO => {
                    ctl.io_step();
                    Some(None)
                }
                other => Some(Some(other)),
            }
        });
        let Some(d) = decision else { break };
        let Some(ch) = d else { continue };
        let idx = match ch {
            Choice::A => {
                let id = next;
                next += 1;
                let at = CTL.with(|c| c.borrow().as_ref().unwrap().steps.len());
                admitted.push((id, at));
                tasks.push(Task { id, name: spec.names[id].clone(), fut: (spec.make)(id), w: Arc::new(TaskWaker { ready: AtomicBool::new(false) }) });
                tasks.len() - 1
            }
            Choice::P(id) => tasks.iter().position(|t| t.id == id).expect("ready task"),
            _ => unreachable!(),
        };
        let t = &mut tasks[idx];
        t.w.ready.store(false, Ordering::SeqCst);
        let waker = Waker::from(t.w.clone());
        let mut cx = Context::from_waker(&waker);
        let polled = std::panic::catch_unwind(std::panic::AssertUnwindSafe(|| t.fut.as_mut().poll(&mut cx)));
        CTL.with(|c| {
            if let Some(ctl) = c.borrow_mut().as_mut() {
                ctl.io_dirty = true;
                ctl.cur_handler.clear();
                if !ctl.io_enabled {
                    ctl.io_step();
                }
            }
        });
        match polled {
            Ok(Poll::Ready(())) => {
                let id = t.id;
                let at = CTL.with(|c| c.borrow().as_ref().unwrap().steps.len());
                completed.push((id, at));
                tasks.remove(idx);
                on_complete(id);
            }
            Ok(Poll::Pending) => {}
            Err(_) => {
                // handler panicked: the dispatcher future of the real server would be dead now
                tasks.remove(idx);
                break;
            }
        }
    }
    let ctl = CTL.with(|c| c.borrow_mut().take().unwrap());
    let pending: Vec<String> = tasks.iter().map(|t| format!("{}#{}", t.name, t.id)).collect();
    // stop scheduling: the worker (if parked) free-runs from here, queued I/O completes
    {
        let mut g = shared.m.lock().unwrap();
        g.active = false;
        g.go = true;
        shared.cv.notify_all();
    }
    if let Some(h) = &ctl.head {
        h.release();
    }
    let panics = ctl.panics();
    drop(tasks);
    ROLE.with(|r| r.set(Role::None));
    RunOutcome {
        steps: ctl.steps,
        pending_at_quiescence: pending,
        completed,
        admitted,
        cap_hit: ctl.cap_hit,
        infeasible: ctl.infeasible,
        panics,
        handler_deadlock: ctl.handler_deadlock,
        states: ctl.states.len(),
        worker_trace: ctl.worker_trace,
        io_steps: ctl.io_steps,
    }
}

/// Sites at which the minimal schedule deviates from the benign default: the signature of a violation.
pub fn deviation_signature(steps: &[Step]) -> Vec<String> {
    let mut s: BTreeSet<String> = BTreeSet::new();
    for st in steps.iter().filter(|s| s.deviates) {
        let kind = match &st.choice {
            Choice::P(_) => "P".to_string(),
            c => c.code(),
        };
        // message names are reduced to their kind ("didChange(d0,v3,1full)" -> "didChange")
        let site = st.site.split('(').next().unwrap_or("").to_string();
        let what = if st.in_handler.is_empty() { format!("{kind}@top:{site}") } else { format!("{kind}@{}:{site}", st.in_handler) };
        s.insert(what);
    }
    s.into_iter().collect()
}

pub fn trace_text(steps: &[Step]) -> Vec<String> {
    steps.iter().map(|s| format!("{} {}{} {}{}", s.n, s.choice.code(), if s.deviates { "*" } else { "" }, s.site, if s.in_handler.is_empty() { String::new() } else { format!(" (handler at {})", s.in_handler) })).collect()
}

pub fn probes_from(out: &RunOutcome) -> BTreeMap<String, u64> {
    let mut p: BTreeMap<String, u64> = BTreeMap::new();
    for s in &out.steps {
        if s.choice == Choice::W && !s.in_handler.is_empty() {
            *p.entry(format!("worker[{}]-while-handler-at[{}]", s.site, s.in_handler)).or_insert(0) += 1;
        }
        if s.choice == Choice::W && s.io_dirty && s.site.starts_with("core.") {
            *p.entry("compile-step-while-file-io-queued".into()).or_insert(0) += 1;
        }
        if s.choice == Choice::W && s.site == "core.check_should_abort" {
            *p.entry("abort-point-passed".into()).or_insert(0) += 1;
        }
    }
    p
}

/// Debug aid for watchdog trips: thread backtraces of this process via gdb (best effort).
pub fn dump_threads() {
    let pid = std::process::id();
    let _ = std::process::Command::new("gdb").env_remove("LD_PRELOAD").args(["-p", &pid.to_string(), "-batch", "-ex", "thread apply all bt 40"]).stdout(std::fs::File::create(format!("/tmp/lspsim-watchdog-{pid}.txt")).unwrap()).stderr(std::process::Stdio::null()).status();
}
