//! The client's copy of a document with LSP semantics: positions are (line, UTF-16 code unit) pairs,
//! lines end at "\n" (a preceding "\r" belongs to the line's content as far as offsets go, exactly as in
//! the LSP specification where "\r\n", "\n" and "\r" are line terminators — workloads here only ever use
//! "\n" and "\r\n", and never put a position between "\r" and "\n").
#[derive(Clone, Debug, PartialEq)]
pub struct Doc {
    pub text: String,
}

#[derive(Clone, Debug, PartialEq, serde::Serialize, serde::Deserialize)]
pub struct Change {
    /// (start line, start utf16 col, end line, end utf16 col); None = full document
    pub range: Option<(u32, u32, u32, u32)>,
    pub text: String,
}

impl Doc {
    pub fn new(text: &str) -> Doc {
        Doc { text: text.to_string() }
    }
    /// byte offsets of line starts
    fn line_starts(&self) -> Vec<usize> {
        let mut v = vec![0];
        for (i, b) in self.text.bytes().enumerate() {
            if b == b'\n' {
                v.push(i + 1);
            }
        }
        v
    }
    pub fn line_count(&self) -> usize {
        self.line_starts().len()
    }
    /// content of line `l` without its terminator
    pub fn line(&self, l: usize) -> &str {
        let ls = self.line_starts();
        let s = ls[l];
        let e = if l + 1 < ls.len() { ls[l + 1] } else { self.text.len() };
        let mut t = &self.text[s..e];
        if t.ends_with('\n') {
            t = &t[..t.len() - 1];
        }
        if t.ends_with('\r') {
            t = &t[..t.len() - 1];
        }
        t
    }
    pub fn line_len_utf16(&self, l: usize) -> u32 {
        self.line(l).encode_utf16().count() as u32
    }
    /// Byte offset of a position; None if the line does not exist, the column is past the end of the
    /// line's content, or the column falls inside a surrogate pair.
    pub fn offset(&self, line: u32, col: u32) -> Option<usize> {
        let ls = self.line_starts();
        let l = line as usize;
        if l >= ls.len() {
            return None;
        }
        let content = self.line(l);
        let mut units = 0u32;
        for (i, ch) in content.char_indices() {
            if units == col {
                return Some(ls[l] + i);
            }
            units += ch.len_utf16() as u32;
            if units > col {
                return None; // inside a surrogate pair
            }
        }
        if units == col {
            Some(ls[l] + content.len())
        } else {
            None
        }
    }
    /// Apply a change. Err(()) = the change is invalid in the model (range does not denote a span of the document).
    pub fn apply(&mut self, c: &Change) -> Result<(), ()> {
        match c.range {
            None => {
                self.text = c.text.clone();
                Ok(())
            }
            Some((sl, sc, el, ec)) => {
                let s = self.offset(sl, sc).ok_or(())?;
                let e = self.offset(el, ec).ok_or(())?;
                if s > e {
                    return Err(());
                }
                self.text.replace_range(s..e, &c.text);
                Ok(())
            }
        }
    }
}

#[cfg(test)]
mod tests {
    use super::*;
    #[test]
    fn utf16_offsets() {
        let d = Doc::new("a😀b\nπx\r\nz");
        assert_eq!(d.offset(0, 0), Some(0));
        assert_eq!(d.offset(0, 1), Some(1));
        assert_eq!(d.offset(0, 2), None); // inside the surrogate pair
        assert_eq!(d.offset(0, 3), Some(5));
        assert_eq!(d.offset(0, 4), Some(6));
        assert_eq!(d.offset(0, 5), None);
        assert_eq!(d.offset(1, 1), Some(9));
        assert_eq!(d.offset(1, 2), Some(10)); // before \r
        assert_eq!(d.offset(1, 3), None);
        assert_eq!(d.offset(2, 1), Some(13));
        assert_eq!(d.offset(3, 0), None);
    }
    #[test]
    fn apply_ranged() {
        let mut d = Doc::new("a😀b\nπx\n");
        d.apply(&Change { range: Some((0, 3, 1, 1)), text: "Q".into() }).unwrap();
        assert_eq!(d.text, "a😀Qx\n");
        assert!(d.apply(&Change { range: Some((0, 2, 0, 3)), text: "".into() }).is_err());
    }
}
