//! C24 — LSP compilation scheduling neither hangs nor drops edits. DESIGN.md §4.4.
use crate::driver::PropDef;
use crate::model::Change;
use crate::sim::{client_model, Ev, SimOpts, SimResult, Workload};
use simcore::Rng;

pub const MANIFEST: &str = "[project]\nauthors = [\"sim\"]\nentry = \"lib.sw\"\nlicense = \"Apache-2.0\"\nname = \"simlib\"\nimplicit-std = false\n";

pub fn helper_text(version: i32) -> String {
    format!("library;\n\npub fn helper_v{version}() -> u64 {{ 3 }}\n")
}

pub fn lib_text(version: i32) -> String {
    format!("library;\n\n// the marker function carries the document version\npub fn marker_v{version}() -> u64 {{ {version} }}\npub fn other() -> u64 {{ 2 }}\n")
}
const MARKER_LINE: u32 = 3;

fn gen(rng: &mut Rng, _sub: u64) -> Workload {
    let two_files = rng.chance(1, 3);
    let mut files = vec![("src/lib.sw".to_string(), lib_text(1))];
    if two_files {
        files[0].1 = format!("library;\n\n// the marker function carries the document version\npub fn marker_v1() -> u64 {{ 1 }}\npub fn other() -> u64 {{ 2 }}\npub mod helper;\n");
        // `mod` must come first in Sway: keep the marker line index stable by putting it on top
        files[0].1 = "library;\npub mod helper;\n// the marker function carries the document version\npub fn marker_v1() -> u64 { 1 }\npub fn other() -> u64 { 2 }\n".to_string();
        files.push(("src/helper.sw".to_string(), helper_text(1)));
    }
    let mut events = vec![Ev::Open { doc: 0 }];
    let n = rng.range(2, 8);
    let mut version = 1;
    let mut helper_version = 1;
    let edit_helper = two_files && rng.chance(1, 2);
    if edit_helper {
        events.push(Ev::Open { doc: 1 });
    }
    let mix = rng.below(3); // swarm: change-heavy / request-heavy / balanced
    // Exploratory only (C24_REOPEN=1): close the first document (saved or not) and open it again; the client then
    // shows the saved state. `didClose` is not among the notifications the property quantifies over, and the
    // unchanged tree does not recompile a re-opened document whose text differs from the one compiled last
    // (DESIGN.md 13.4, observations) — so the class is off in every tier.
    let reopen_at = if std::env::var("C24_REOPEN").is_ok() && rng.chance(1, 5) { Some(rng.below(n)) } else { None };
    for step in 0..n {
        if reopen_at == Some(step) {
            if rng.chance(1, 2) {
                events.push(Ev::Save { doc: 0 });
            }
            events.push(Ev::Close { doc: 0 });
            events.push(Ev::Open { doc: 0 });
        }
        let k = rng.below(10);
        let pick = match mix {
            0 => if k < 7 { 0 } else if k < 8 { 1 } else { 2 },
            1 => if k < 3 { 0 } else if k < 5 { 1 } else { 2 },
            _ => if k < 5 { 0 } else if k < 7 { 1 } else { 2 },
        };
        match pick {
            0 if edit_helper && rng.chance(1, 3) => {
                // an edit to the second document (its own version counter, its own marker)
                helper_version += 1;
                events.push(Ev::Change { doc: 1, version: helper_version, changes: vec![Change { range: None, text: helper_text(helper_version) }] });
            }
            0 => {
                version += 1;
                let line = format!("pub fn marker_v{version}() -> u64 {{ {version} }}\n");
                let change = if rng.chance(1, 2) {
                    let mut t = files[0].1.clone();
                    let lines: Vec<&str> = t.split_inclusive('\n').collect();
                    t = lines.iter().enumerate().map(|(i, l)| if i as u32 == MARKER_LINE { line.clone() } else { l.to_string() }).collect();
                    Change { range: None, text: t }
                } else {
                    Change { range: Some((MARKER_LINE, 0, MARKER_LINE + 1, 0)), text: line }
                };
                events.push(Ev::Change { doc: 0, version, changes: vec![change] });
            }
            1 => events.push(Ev::Save { doc: 0 }),
            _ => events.push(Ev::Req { doc: 0, kind: rng.pick(&["documentSymbol", "semanticTokens", "inlayHint", "codeLens"]).to_string() }),
        }
    }
    Workload { files, manifest: MANIFEST.to_string(), events, gc: rng.chance(1, 2) }
}

fn opts(rng: &mut Rng, _sub: u64) -> SimOpts {
    SimOpts { io_enabled: rng.chance(3, 4), step_cap: 20_000, max_in_flight: 4, gate_first: rng.chance(1, 2), observe_all: true, reference: false }
}

pub fn last_version(wl: &Workload) -> i32 {
    wl.events.iter().filter_map(|e| if let Ev::Change { doc: 0, version, .. } = e { Some(*version) } else { None }).max().unwrap_or(1)
}

fn last_helper_version(wl: &Workload) -> Option<i32> {
    wl.events.iter().filter_map(|e| if let Ev::Change { doc: 1, version, .. } = e { Some(*version) } else { None }).max()
}

fn judge(wl: &Workload, r: &SimResult) -> Option<(String, String)> {
    if r.out.infeasible {
        return None;
    }
    if let Some(p) = r.out.panics.first() {
        return Some(("P".into(), format!("an actor panicked: {p}")));
    }
    if r.out.cap_hit {
        return Some(("a".into(), format!("no quiescence within {} scheduling decisions (livelock)", r.out.steps.len())));
    }
    if let Some(site) = &r.out.handler_deadlock {
        return Some(("a".into(), format!("a handler can never continue past {site}")));
    }
    if !r.out.pending_at_quiescence.is_empty() {
        return Some(("a".into(), format!("at quiescence (worker idle, request channel empty, no I/O outstanding) these handlers are still waiting: {:?}", r.out.pending_at_quiescence)));
    }
    if r.obs.probe_hung {
        return Some(("a".into(), "a documentSymbol request issued after quiescence did not return within 3 s although no compilation is running or pending".into()));
    }
    // (b) the observable state is that of the latest version
    let m = client_model(wl);
    let client_text = &m.docs[0].text;
    // the version the client shows at the end (a re-open discards unsaved edits, so not always the last one sent)
    let marker_of = |t: &str| -> i32 { t.split("marker_v").nth(1).and_then(|r| r.split('(').next()).and_then(|d| d.parse().ok()).unwrap_or(0) };
    let want = marker_of(client_text);
    let newest = last_version(wl);
    let syms = r.obs.probe_symbols.first().cloned().flatten().unwrap_or_default();
    let has = |v: i32| syms.contains(&format!("\"marker_v{v}\""));
    if !has(want) {
        let seen: Vec<i32> = (1..=newest).filter(|v| has(*v)).collect();
        return Some(("b".into(), format!("at quiescence documentSymbol does not show the latest version's marker_v{want} (markers visible: {seen:?}; symbols empty: {})", syms == "null" || syms.is_empty())));
    }
    if let Some(old) = (1..=newest).find(|v| *v != want && has(*v)) {
        return Some(("b".into(), format!("at quiescence documentSymbol still shows marker_v{old} of another version next to marker_v{want}")));
    }
    match r.obs.final_temp_file.first().cloned().flatten() {
        Some(t) if &t == client_text => {}
        other => return Some(("b".into(), format!("at quiescence the file the compiler reads differs from the client's text (client has marker_v{want}; file: {})", other.map(|t| t.lines().nth(MARKER_LINE as usize).unwrap_or("<short>").to_string()).unwrap_or("<missing>".into())))),
    }
    // the second document, if it was edited
    if let Some(hv) = last_helper_version(wl) {
        let syms = r.obs.probe_symbols.get(1).cloned().flatten().unwrap_or_default();
        if !syms.contains(&format!("\"helper_v{hv}\"")) {
            let seen: Vec<i32> = (1..=hv).filter(|v| syms.contains(&format!("\"helper_v{v}\""))).collect();
            return Some(("b".into(), format!("at quiescence documentSymbol of the second document does not show its latest version's helper_v{hv} (visible: {seen:?})")));
        }
        match r.obs.final_temp_file.get(1).cloned().flatten() {
            Some(t) if t == m.docs[1].text => {}
            _ => return Some(("b".into(), format!("at quiescence the second document's file differs from the client's text (helper_v{hv})"))),
        }
    }
    None
}

fn sig(wl: &Workload, _r: &SimResult) -> Vec<String> {
    let mut s = vec![];
    for e in &wl.events {
        s.push(format!("ev:{}", match e { Ev::Open { .. } => "didOpen", Ev::Change { .. } => "didChange", Ev::Save { .. } => "didSave", Ev::Req { .. } => "request", Ev::Close { .. } => "didClose", Ev::Deleted { .. } => "deleted" }));
    }
    let docs: std::collections::BTreeSet<usize> = wl.events.iter().filter_map(|e| if let Ev::Change { doc, .. } = e { Some(*doc) } else { None }).collect();
    if docs.len() >= 2 {
        s.push("edits-multiple-documents".into());
    }
    s.sort();
    s.dedup();
    s
}

fn probes(wl: &Workload, r: &SimResult) -> Vec<String> {
    let mut p = vec![];
    // didChange admitted before the same document's didOpen completed
    let open_done = r.out.completed.iter().find(|(id, _)| *id == 0).map(|x| x.1);
    for (id, at) in &r.out.admitted {
        if matches!(wl.events[*id], Ev::Change { .. }) && open_done.map(|d| *at < d).unwrap_or(true) {
            p.push("didChange-polled-before-didOpen-completed".to_string());
            break;
        }
    }
    // two didChange handlers in flight at once
    let mut inflight: Vec<(usize, usize)> = vec![];
    for (id, at) in &r.out.admitted {
        if matches!(wl.events[*id], Ev::Change { .. }) {
            let end = r.out.completed.iter().find(|(i, _)| i == id).map(|x| x.1).unwrap_or(usize::MAX);
            if inflight.iter().any(|(_, e)| *e > *at) {
                p.push("overlapping-didChange-handlers".to_string());
            }
            inflight.push((*at, end));
        }
    }
    if r.out.worker_trace.iter().filter(|(_, s)| *s == "core.check_should_abort").count() > 0 {
        p.push("compile-ran-under-scheduler".into());
    }
    p.sort();
    p.dedup();
    p
}

fn droppable(e: &Ev) -> bool {
    !matches!(e, Ev::Open { doc: 0 })
}

fn well_formed(wl: &Workload) -> bool {
    // the ranged changes replace one fixed whole line: valid in every sub-history; what a client can send is
    // constrained by which documents it has open
    let mut open = vec![false; wl.files.len()];
    for e in &wl.events {
        match e {
            Ev::Open { doc } => {
                if open[*doc] {
                    return false;
                }
                open[*doc] = true;
            }
            Ev::Close { doc } => {
                if !open[*doc] {
                    return false;
                }
                open[*doc] = false;
            }
            Ev::Change { doc, .. } | Ev::Save { doc } | Ev::Req { doc, .. } => {
                if !open[*doc] {
                    return false;
                }
            }
            Ev::Deleted { .. } => {}
        }
    }
    open[0] && client_model(wl).invalid.is_empty()
}

pub const DEF: PropDef = PropDef {
    id: "C24",
    gen,
    opts,
    judge,
    sig,
    probes,
    droppable,
    well_formed,
    deviation_signature: true,
    group_change_save: false,
    rule: "one evaluation = one simulated run of the real ServerState: a seeded client script (didOpen, then 2-8 of didChange/didSave/requests) delivered by a tower-lsp-like dispatcher (<=4 handlers in flight, FIFO first poll) while a seeded scheduler interleaves handler segments, compile-worker segments (every shared-state access and every abort point is a scheduling point) and batches of queued file I/O; distinct+non-trivial = distinct decision traces (sequence of chosen action and site)",
    components_real: &["sway_lsp::ServerState and all handlers", "compile worker thread", "sway-core / forc-pkg compilation", "crossbeam channel", "tokio Notify", "tokio::fs on a 1-thread blocking pool", "SyncWorkspace temp dirs", "PidLockedFiles"],
    components_stub: &["JSON-RPC transport and tower-lsp router (dispatcher model)", "LSP client (client: None)", "entropy (seeded shim)", "ps (fake, liveness table)"],
    assumptions: &["code between two hook points runs atomically", "crossbeam and Notify operations are linearizable", "file operations complete in submission order in batches of one handler poll"],
    default_runs: (12000, 200000),
    default_wall: (240, 2400),
    default_workers: 4,
    level: "exploration",
};
