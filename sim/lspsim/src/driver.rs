//! Batch driver shared by C23/C24/C26: worker processes run seeded simulations, the coordinator
//! aggregates, classifies (known findings), writes replay files and evidence.
use crate::sched::{self, Choice, Mode, Policy};
use crate::sim::{simulate, Env, Ev, SimOpts, SimResult, Workload};
use serde_json::{json, Value};
use simcore::*;
use std::collections::{BTreeMap, BTreeSet};
use std::io::{BufRead, BufReader, Write};
use std::path::PathBuf;
use std::process::{Command, Stdio};

pub struct PropDef {
    pub id: &'static str,
    pub gen: fn(&mut Rng, u64) -> Workload,
    pub opts: fn(&mut Rng, u64) -> SimOpts,
    /// (clause, detail) of the first violated oracle clause
    pub judge: fn(&Workload, &SimResult) -> Option<(String, String)>,
    /// workload-level signature elements (besides the schedule deviations)
    pub sig: fn(&Workload, &SimResult) -> Vec<String>,
    pub probes: fn(&Workload, &SimResult) -> Vec<String>,
    /// which events the minimiser may drop
    pub droppable: fn(&Ev) -> bool,
    /// does a (reduced) workload still satisfy the generator's guarantees? The minimiser only keeps those.
    pub well_formed: fn(&Workload) -> bool,
    /// include the schedule's deviation sites in violation signatures (false: only the `sig` elements)
    pub deviation_signature: bool,
    /// the minimiser drops a didSave that directly follows a didChange of the same document only together
    /// with that didChange (keeps "save after every edit" histories in their class)
    pub group_change_save: bool,
    pub rule: &'static str,
    pub components_real: &'static [&'static str],
    pub components_stub: &'static [&'static str],
    pub assumptions: &'static [&'static str],
    pub default_runs: (usize, usize),
    pub default_wall: (usize, usize),
    /// process creation (the server runs `ps` for its dirty flags) does not scale in this sandbox: cheap runs use few workers
    pub default_workers: usize,
    pub level: &'static str,
}

fn bin_dir() -> String {
    std::env::var("VERIF_FROZEN").map(|d| format!("{d}/bin")).unwrap_or_else(|_| "/verif/bin".into())
}

fn decisions_hash(res: &SimResult) -> u64 {
    let mut s = String::new();
    for st in &res.out.steps {
        s.push_str(&st.choice.code());
        s.push('@');
        s.push_str(&st.site);
        s.push(';');
    }
    fnv64(s.as_bytes())
}

fn clone_opts(o: &SimOpts) -> SimOpts {
    SimOpts { io_enabled: o.io_enabled, step_cap: o.step_cap, max_in_flight: o.max_in_flight, gate_first: o.gate_first, observe_all: o.observe_all, reference: o.reference }
}

fn violates(def: &PropDef, env: &Env, wl: &Workload, opts: &SimOpts, decisions: &[Choice], clause: &str) -> Option<SimResult> {
    if !(def.well_formed)(wl) {
        return None;
    }
    let r = simulate(env, wl, Mode::Forced { list: decisions.to_vec(), pos: 0, tolerant: true }, opts);
    match (def.judge)(wl, &r) {
        Some((c, _)) if c == clause => Some(r),
        _ => None,
    }
}

/// ddmin over droppable client events, then over the decision list (tolerant replay: infeasible forced
/// choices are skipped, the benign default policy finishes the run), while the same clause keeps failing.
fn minimise(def: &PropDef, env: &Env, wl: &Workload, opts: &SimOpts, res: SimResult, clause: &str, expensive: bool) -> (Workload, SimResult) {
    // a run that compiles the real standard library costs seconds (twice with a reference server): spend far fewer
    // candidate runs on minimising it
    let (budget_events, budget_schedule) = if expensive { (10, 14) } else { (60, 120) };
    let mut wl = wl.clone();
    let mut best = res;
    let decisions = |r: &SimResult| r.out.steps.iter().map(|s| s.choice.clone()).collect::<Vec<_>>();
    // 1. events
    let fixed: Vec<usize> = wl.events.iter().enumerate().filter(|(_, e)| !(def.droppable)(e)).map(|(i, _)| i).collect();
    // droppable units: single events, or (didChange, its directly following didSave) pairs
    let mut follower: BTreeMap<usize, usize> = BTreeMap::new(); // change index -> save index
    if def.group_change_save {
        for i in 0..wl.events.len().saturating_sub(1) {
            if let (Ev::Change { doc, .. }, Ev::Save { doc: d2 }) = (&wl.events[i], &wl.events[i + 1]) {
                if doc == d2 {
                    follower.insert(i, i + 1);
                }
            }
        }
    }
    let glued: Vec<usize> = follower.values().copied().collect();
    let droppable: Vec<usize> = (0..wl.events.len()).filter(|i| !fixed.contains(i) && !glued.contains(i)).collect();
    let expand = |cand: &[usize]| -> Vec<usize> {
        let mut v: Vec<usize> = cand.to_vec();
        for c in cand {
            if let Some(sv) = follower.get(c) {
                v.push(*sv);
            }
        }
        v
    };
    let cur_dec = decisions(&best);
    let build = |keep: &[usize]| -> (Workload, Vec<Choice>) {
        let keep = expand(keep);
        let mut w2 = wl.clone();
        w2.events = wl.events.iter().enumerate().filter(|(i, _)| fixed.contains(i) || keep.contains(i)).map(|(_, e)| e.clone()).collect();
        // task ids in P(i) refer to event indices: remap the decision list
        let map: BTreeMap<usize, usize> = wl.events.iter().enumerate().filter(|(i, _)| fixed.contains(i) || keep.contains(i)).enumerate().map(|(new, (old, _))| (old, new)).collect();
        let d2: Vec<Choice> = cur_dec.iter().filter_map(|c| match c { Choice::P(i) => map.get(i).map(|n| Choice::P(*n)), other => Some(other.clone()) }).collect();
        (w2, d2)
    };
    let kept = ddmin(droppable.clone(), budget_events, |cand| {
        let (w2, d2) = build(cand);
        violates(def, env, &w2, opts, &d2, clause).is_some()
    });
    if kept.len() < droppable.len() {
        let (w2, d2) = build(&kept);
        if let Some(r2) = violates(def, env, &w2, opts, &d2, clause) {
            wl = w2;
            best = r2;
        }
    }
    // 2. schedule: first try the benign default schedule alone (workload-only bug), then ddmin the decisions
    if let Some(r2) = violates(def, env, &wl, opts, &[], clause) {
        return (wl, r2);
    }
    let dec = decisions(&best);
    // only deviations matter under tolerant replay: drop non-deviating decisions wholesale first
    let d = ddmin(dec, budget_schedule, |cand| violates(def, env, &wl, opts, cand, clause).is_some());
    if let Some(r2) = violates(def, env, &wl, opts, &d, clause) {
        best = r2;
    }
    (wl, best)
}

fn signature(def: &PropDef, wl: &Workload, r: &SimResult) -> Vec<String> {
    let mut s: BTreeSet<String> = if def.deviation_signature { sched::deviation_signature(&r.out.steps).into_iter().collect() } else { BTreeSet::new() };
    for x in (def.sig)(wl, r) {
        s.insert(x);
    }
    s.into_iter().collect()
}

fn replay_value(def: &PropDef, wl: &Workload, opts: &SimOpts, r: &SimResult, origin: Value) -> Value {
    json!({
        "property": def.id,
        "workload": wl,
        "opts": {"io_enabled": opts.io_enabled, "step_cap": opts.step_cap, "max_in_flight": opts.max_in_flight, "gate_first": opts.gate_first, "observe_all": opts.observe_all, "reference": opts.reference},
        "decisions": r.out.steps.iter().map(|s| s.choice.code()).collect::<Vec<_>>(),
        "trace": sched::trace_text(&r.out.steps),
        "events": r.names,
        "decisions_hash": format!("{:016x}", decisions_hash(r)),
        "origin": origin,
    })
}

/// `lspsim worker <id> --seed S --start K --stride W --count N --wall SECS`
pub fn worker(def: &PropDef, cli: &Cli) -> i32 {
    let start = cli.get_usize("start", 0);
    let stride = cli.get_usize("stride", 1);
    let count = cli.get_usize("count", 10);
    let wall = cli.get_usize("wall", 600) as f64;
    let detonly = cli.flag("detcheck");
    let scratch = PathBuf::from(cli.get("scratch").unwrap_or("/dev/shm/vsim/lspsim-default"));
    let env = Env::new(&scratch);
    let t0 = std::time::Instant::now();
    let out = std::io::stdout();
    let mut reported: BTreeSet<String> = BTreeSet::new();
    let mut minimised = 0;
    let mut minimised_f = 0;
    let mut i = start;
    let mut done = 0;
    while done < count && t0.elapsed().as_secs_f64() < wall {
        let sub = derive(cli.seed, def.id, i as u64);
        let mut wr = Rng::stream(sub, "workload");
        let wl = (def.gen)(&mut wr, sub);
        let mut or = Rng::stream(sub, "opts");
        let opts = (def.opts)(&mut or, sub);
        let mut pr = Rng::stream(sub, "policy");
        let policy = Policy::gen(&mut pr);
        let pname = policy.name.clone();
        let t_run = std::time::Instant::now();
        let res = simulate(&env, &wl, Mode::Seeded { rng: Rng::stream(sub, "choices"), policy }, &opts);
        let expensive = t_run.elapsed().as_secs_f64() > 1.0;
        if let Ok(d) = std::env::var("LSPSIM_TRACE_DIR") {
            // debugging aid: the decision trace of every run, one file per (run, process)
            let _ = std::fs::write(format!("{d}/{i}-{}.trace", std::process::id()), sched::trace_text(&res.out.steps).join("\n"));
        }
        let mut line = json!({"i": i, "steps": res.out.steps.len(), "hash": format!("{:016x}", decisions_hash(&res)), "states": res.out.states, "io_steps": res.out.io_steps, "events": wl.events.len(),
            "probes": (def.probes)(&wl, &res), "sched_probes": sched::probes_from(&res.out), "deviations": res.out.steps.iter().filter(|s| s.deviates).count(), "class": if opts.gate_first { "F" } else { "T" }});
        if res.out.infeasible {
            harness_error("lspsim worker: seeded run reported an infeasible choice");
        }
        if !detonly {
            if let Some((clause, detail)) = (def.judge)(&wl, &res) {
                let raw_class = format!("{clause}|{}", signature(def, &wl, &res).join(","));
                line["violation_raw"] = json!({"clause": clause, "detail": detail, "class": raw_class});
                // every raw violation class is minimised and classified, up to 40 per worker process
                let budget_ok = minimised_f + minimised < cli.get_usize("minimise", 40);
                if budget_ok && reported.insert(raw_class) {
                    if opts.gate_first { minimised_f += 1 } else { minimised += 1 }
                    // runs that compile the real standard library (seconds each, twice with a reference server) are
                    // reported as they are: their signature is semantic, and a minimisation would take many minutes
                    let (mw, mr) = if expensive { (wl.clone(), res) } else { minimise(def, &env, &wl, &opts, res, &clause, false) };
                    let mdetail = (def.judge)(&mw, &mr).map(|x| x.1).unwrap_or(detail);
                    // strict replay must reproduce the same decisions and the same clause
                    let dec: Vec<Choice> = mr.out.steps.iter().map(|s| s.choice.clone()).collect();
                    let mut exact = false;
                    for _attempt in 0..3 {
                        let again = simulate(&env, &mw, Mode::Forced { list: dec.clone(), pos: 0, tolerant: false }, &opts);
                        if !again.out.infeasible && decisions_hash(&again) == decisions_hash(&mr) && (def.judge)(&mw, &again).map(|x| x.0) == Some(clause.clone()) {
                            exact = true;
                            break;
                        }
                    }
                    // A violation that was observed but does not replay exactly means the code under test has a source
                    // of nondeterminism behind the seams (seen: the GC-related slab panic, C26-K3). It is still reported —
                    // marked as such — instead of aborting the whole batch.
                    line["replay_exact"] = json!(exact);
                    line["violation"] = json!({"clause": clause, "detail": mdetail, "signature": signature(def, &mw, &mr),
                        "replay": replay_value(def, &mw, &opts, &mr, json!({"verif_seed": cli.seed, "run": i, "sub_seed": sub, "policy": pname, "replays_exactly": exact}))});
                }
            }
        }
        if done < 2 {
            line["sample"] = json!({"events": res_names(&wl), "trace_head": "see replay format", "policy": pname});
        }
        let mut lock = out.lock();
        let _ = writeln!(lock, "{}", line);
        let _ = lock.flush();
        i += stride;
        done += 1;
    }
    let _ = std::fs::remove_dir_all(&scratch);
    0
}

fn res_names(wl: &Workload) -> Vec<String> {
    wl.events.iter().map(|e| e.name()).collect()
}

fn spawn_worker(def: &PropDef, cli: &Cli, k: usize, stride: usize, count: usize, wall: usize, base: &str, extra: &[&str]) -> std::process::Child {
    let exe = std::env::current_exe().expect("current_exe");
    let scratch = format!("{base}/w{k}");
    std::fs::create_dir_all(format!("{scratch}/home")).ok();
    std::fs::create_dir_all(format!("{scratch}/tmp")).ok();
    let mut c = Command::new(exe);
    c.arg("worker").arg(def.id).args(["--seed", &cli.seed.to_string(), "--tier", &cli.tier, "--start", &k.to_string(), "--stride", &stride.to_string(), "--count", &count.to_string(), "--wall", &wall.to_string(), "--scratch", &format!("{scratch}/run")]);
    c.args(extra);
    c.env_clear()
        .env("PATH", format!("{}:/usr/bin:/bin", bin_dir()))
        .env("HOME", format!("{scratch}/home"))
        .env("TMPDIR", format!("{scratch}/tmp"))
        .env("LD_PRELOAD", format!("{}/libsimshim.so", bin_dir()))
        .env("SIMSHIM_EXE", "lspsim")
        .env("SIMSHIM_SEED", "11")
        .env("SIM_LIVE", format!("{scratch}/live"))
        .env("RUST_BACKTRACE", "0")
        .env("RAYON_NUM_THREADS", "2")
        .stdin(Stdio::null())
        .stdout(Stdio::piped())
        .stderr(Stdio::piped());
    let child = c.spawn().unwrap_or_else(|e| harness_error(&format!("cannot spawn lspsim worker: {e}")));
    // the fake `ps` answers from this table: the worker process itself is alive
    std::fs::write(format!("{scratch}/live"), format!("{}\n", child.id())).ok();
    child
}

fn collect(children: Vec<std::process::Child>) -> Vec<Value> {
    let mut lines = vec![];
    let mut handles = vec![];
    for mut ch in children {
        handles.push(std::thread::spawn(move || {
            let mut v = vec![];
            let so = ch.stdout.take().unwrap();
            let mut se = ch.stderr.take().unwrap();
            let errt = std::thread::spawn(move || {
                let mut s = String::new();
                let _ = std::io::Read::read_to_string(&mut se, &mut s);
                s
            });
            for l in BufReader::new(so).lines().map_while(Result::ok) {
                if let Some(m) = l.strip_prefix("HARNESS-ERROR: ") {
                    v.push(json!({"harness_error": m}));
                } else if let Ok(j) = serde_json::from_str::<Value>(&l) {
                    v.push(j);
                }
            }
            let st = ch.wait().ok();
            let err = errt.join().unwrap_or_default();
            if st.map(|s| !s.success()).unwrap_or(true) {
                v.push(json!({"harness_error": format!("worker exited with {:?}: {}", st, err.lines().rev().take(6).collect::<Vec<_>>().join(" | "))}));
            }
            v
        }));
    }
    for h in handles {
        lines.extend(h.join().unwrap_or_default());
    }
    lines
}

pub fn coordinator(def: &PropDef, cli: &Cli) -> i32 {
    let base = format!("/dev/shm/vsim/{}/{}", std::process::id(), def.id);
    let _ = std::fs::remove_dir_all(&base);
    std::fs::create_dir_all(&base).ok();
    if let Some(p) = &cli.replay {
        return replay(def, cli, p, &base);
    }
    let mut ev = Evidence::new(def.id, &cli.tier, cli.seed, def.level);
    let kf = KnownFindings::load("/verif/known_findings.json");
    let w = std::env::var("VERIF_WORKERS").ok().and_then(|s| s.parse().ok()).unwrap_or(def.default_workers);
    let runs = cli.get_usize("runs", if cli.thorough() { def.default_runs.1 } else { def.default_runs.0 });
    let wall = cli.get_usize("wall", if cli.thorough() { def.default_wall.1 } else { def.default_wall.0 });
    // ---- determinism self-check: the same 2x24 runs in two separate processes
    let det_n = 24;
    let a = collect(vec![spawn_worker(def, cli, 0, 1, det_n, 600, &format!("{base}/detA"), &["--detcheck"])]);
    let b = collect(vec![spawn_worker(def, cli, 0, 1, det_n, 600, &format!("{base}/detB"), &["--detcheck"])]);
    for l in a.iter().chain(b.iter()) {
        if let Some(m) = l["harness_error"].as_str() {
            harness_error(&format!("{}: {m}", def.id));
        }
    }
    let ha: Vec<String> = a.iter().map(|l| format!("{}:{}", l["i"], l["hash"])).collect();
    let hb: Vec<String> = b.iter().map(|l| format!("{}:{}", l["i"], l["hash"])).collect();
    if ha != hb || ha.len() != det_n {
        harness_error(&format!("{} determinism self-check failed: two processes produced different decision traces for the same seeds ({} vs {} runs; first difference at {:?})", def.id, ha.len(), hb.len(), ha.iter().zip(hb.iter()).find(|(x, y)| x != y)));
    }
    // ---- the batch
    let per = runs.div_ceil(w);
    let min_cap = cli.get_usize("minimise", 40).to_string();
    let children: Vec<_> = (0..w).map(|k| spawn_worker(def, cli, k, w, per, wall, &base, &["--minimise", &min_cap])).collect();
    let lines = collect(children);
    let mut report = Report::new(def.id);
    let mut hashes = BTreeSet::new();
    let mut steps = 0u64;
    let mut io_steps = 0u64;
    let mut states = 0u64;
    let mut probes: BTreeMap<String, u64> = BTreeMap::new();
    let mut sched_probes: BTreeMap<String, u64> = BTreeMap::new();
    let mut raw_classes: BTreeMap<String, u64> = BTreeMap::new();
    let mut samples = vec![];
    let mut n = 0usize;
    let mut deviating_runs = 0usize;
    let mut reported_min: BTreeSet<String> = BTreeSet::new();
    let mut by_class: BTreeMap<String, u64> = BTreeMap::new();
    let mut viol_by_class: BTreeMap<String, u64> = BTreeMap::new();
    let mut unminimised = 0u64;
    let mut inexact = 0u64;
    for l in &lines {
        if let Some(m) = l["harness_error"].as_str() {
            harness_error(&format!("{}: {m}", def.id));
        }
        n += 1;
        hashes.insert(l["hash"].as_str().unwrap_or("").to_string());
        steps += l["steps"].as_u64().unwrap_or(0);
        io_steps += l["io_steps"].as_u64().unwrap_or(0);
        states = states.max(l["states"].as_u64().unwrap_or(0));
        if l["deviations"].as_u64().unwrap_or(0) > 0 {
            deviating_runs += 1;
        }
        for p in l["probes"].as_array().cloned().unwrap_or_default() {
            *probes.entry(p.as_str().unwrap_or("").to_string()).or_insert(0) += 1;
        }
        if let Some(o) = l["sched_probes"].as_object() {
            for (k, v) in o {
                *sched_probes.entry(k.clone()).or_insert(0) += v.as_u64().unwrap_or(0);
            }
        }
        *by_class.entry(l["class"].as_str().unwrap_or("?").to_string()).or_insert(0) += 1;
        if let Some(c) = l["violation_raw"]["class"].as_str() {
            *viol_by_class.entry(l["class"].as_str().unwrap_or("?").to_string()).or_insert(0) += 1;
            if l["violation"].is_null() {
                unminimised += 1;
            }
            ev.violations += 1;
            *raw_classes.entry(c.to_string()).or_insert(0) += 1;
        }
        if l["replay_exact"].as_bool() == Some(false) {
            inexact += 1;
        }
        if !l["violation"].is_null() {
            let v = &l["violation"];
            let sig: Vec<String> = v["signature"].as_array().cloned().unwrap_or_default().iter().filter_map(|s| s.as_str().map(String::from)).collect();
            let clause = v["clause"].as_str().unwrap_or("").to_string();
            if reported_min.insert(format!("{clause}|{}", sig.join(","))) {
                let viol = Violation { clause, detail: v["detail"].as_str().unwrap_or("").to_string(), signature: sig, replay: v["replay"].clone() };
                report.add(&kf, &viol, "/verif/replays", &format!("{}-{}", cli.seed, l["i"]));
            }
        }
        if samples.len() < 3 {
            if let Some(s) = l.get("sample") {
                if !s.is_null() {
                    samples.push(json!({"run": l["i"], "events": s["events"], "policy": s["policy"], "decisions": l["steps"], "hash": l["hash"]}));
                }
            }
        }
    }
    if n == 0 {
        harness_error(&format!("{}: no simulated run completed", def.id));
    }
    ev.set("evaluations", json!(n));
    ev.set("distinct_nontrivial", json!(hashes.len()));
    ev.set("rule", json!(def.rule));
    ev.set("scheduling_decisions_total", json!(steps));
    ev.set("runs_whose_schedule_deviates_from_the_sequential_default", json!(deviating_runs));
    ev.set("faults_fired", json!({"delayed_or_reordered_file_io_steps": io_steps, "handler_preempted_by_worker_or_io (see sched_probes)": sched_probes.values().sum::<u64>()}));
    ev.set("probes", json!(probes));
    ev.set("sched_probes", json!(sched_probes));
    ev.set("max_distinct_abstract_states_in_one_run", json!(states));
    ev.set("violating_raw_classes", json!(raw_classes.len()));
    ev.set("minimised_violations_that_did_not_replay_exactly", json!(inexact));
    ev.set("runs_by_workload_class", json!(by_class));
    ev.set("violating_runs_by_workload_class", json!(viol_by_class));
    ev.set("violating_runs_not_minimised (same raw class as an already minimised run, or beyond 40 per worker)", json!(unminimised));
    ev.set("samples", json!(samples));
    ev.set("determinism_selfcheck", json!({"seeds_run_in_two_processes": det_n, "divergences": 0}));
    ev.set("components", json!({"real": def.components_real, "stub": def.components_stub}));
    ev.set("known_findings_seen", json!(report.known_hits.keys().collect::<Vec<_>>()));
    ev.assumptions = def.assumptions.iter().map(|s| s.to_string()).collect();
    ev.write("/verif/evidence");
    let _ = std::fs::remove_dir_all(format!("/dev/shm/vsim/{}", std::process::id()));
    report.finish()
}

fn replay(def: &PropDef, cli: &Cli, path: &str, base: &str) -> i32 {
    // replay runs in a worker process too (hooks + seeded entropy), in strict mode
    if !cli.flag("inproc") {
        let exe = std::env::current_exe().expect("current_exe");
        let scratch = format!("{base}/replay");
        std::fs::create_dir_all(format!("{scratch}/home")).ok();
        std::fs::create_dir_all(format!("{scratch}/tmp")).ok();
        let mut c = Command::new(exe);
        c.arg(def.id.to_lowercase()).args(["--replay", path, "--inproc", "--scratch", &format!("{scratch}/run")]);
        c.env_clear().env("PATH", format!("{}:/usr/bin:/bin", bin_dir())).env("HOME", format!("{scratch}/home")).env("TMPDIR", format!("{scratch}/tmp")).env("LD_PRELOAD", format!("{}/libsimshim.so", bin_dir())).env("SIMSHIM_EXE", "lspsim").env("SIMSHIM_SEED", "11").env("SIM_LIVE", format!("{scratch}/live"));
        let mut child = c.spawn().unwrap_or_else(|e| harness_error(&format!("spawn: {e}")));
        std::fs::write(format!("{scratch}/live"), format!("{}\n", child.id())).ok();
        let st = child.wait().expect("wait");
        let _ = std::fs::remove_dir_all(format!("/dev/shm/vsim/{}", std::process::id()));
        return st.code().unwrap_or(2);
    }
    let txt = std::fs::read_to_string(path).unwrap_or_else(|e| harness_error(&format!("cannot read replay {path}: {e}")));
    let v: Value = serde_json::from_str(&txt).unwrap_or_else(|e| harness_error(&format!("bad replay json: {e}")));
    let wl: Workload = serde_json::from_value(v["workload"].clone()).unwrap_or_else(|e| harness_error(&format!("replay workload: {e}")));
    let o = &v["opts"];
    let opts = SimOpts { io_enabled: o["io_enabled"].as_bool().unwrap_or(true), step_cap: o["step_cap"].as_u64().unwrap_or(20000) as usize, max_in_flight: o["max_in_flight"].as_u64().unwrap_or(4) as usize, gate_first: o["gate_first"].as_bool().unwrap_or(false), observe_all: o["observe_all"].as_bool().unwrap_or(false), reference: o["reference"].as_bool().unwrap_or(false) };
    let dec: Vec<Choice> = v["decisions"].as_array().cloned().unwrap_or_default().iter().filter_map(|s| s.as_str().and_then(Choice::parse)).collect();
    let env = Env::new(&PathBuf::from(cli.get("scratch").unwrap_or("/dev/shm/vsim/lspsim-replay")));
    let r = simulate(&env, &wl, Mode::Forced { list: dec, pos: 0, tolerant: false }, &clone_opts(&opts));
    for l in sched::trace_text(&r.out.steps) {
        println!("  {l}");
    }
    if r.out.infeasible {
        harness_error("replay: a forced decision was infeasible (the code no longer follows this schedule)");
    }
    let same = v["decisions_hash"].as_str() == Some(&format!("{:016x}", decisions_hash(&r)));
    let want = v["clause"].as_str().unwrap_or("");
    match (def.judge)(&wl, &r) {
        Some((c, d)) if c == want => {
            println!("reproduced clause {c}: {d} (decision trace {})", if same { "identical" } else { "DIFFERS" });
            println!("VIOLATION property={} replay={path}", def.id);
            1
        }
        Some((c, d)) => {
            println!("different clause {c}: {d}");
            2
        }
        None => {
            println!("replay did not reproduce");
            0
        }
    }
}
