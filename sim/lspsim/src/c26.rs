//! C26 — incremental (LSP) compilation agrees with a fresh compilation. DESIGN.md §4.5.
//!
//! Seeded multi-module projects and item-level edit histories are compiled incrementally by the real
//! server under the seeded scheduler (so compilations get cancelled at arbitrary abort points, GC runs or
//! not, caches are reused or not); at quiescence the same final text is compiled by a fresh instance and
//! diagnostics + document symbols of every file must agree.
use crate::driver::PropDef;
use crate::model::Change;
use crate::sim::{Ev, SimOpts, SimResult, Workload};
use simcore::Rng;

#[derive(Clone, Debug)]
enum Item {
    Fn { name: String, ret_bool: bool, body: String },
    Struct { name: String, fields: Vec<(String, bool)>, ctor_fields: Vec<(String, bool)> },
    Const { name: String, val: u64 },
    Comment(String),
}

#[derive(Clone, Debug)]
struct Module {
    name: String,
    uses: Vec<String>, // `use ::other::item;` lines
    items: Vec<Item>,
    broken: bool,
    blank_lines: usize,
}

fn render(m: &Module, mods: &[String]) -> String {
    let mut s = String::from("library;\n");
    for d in mods {
        s.push_str(&format!("pub mod {d};\n"));
    }
    for u in &m.uses {
        s.push_str(&format!("use {u};\n"));
    }
    for _ in 0..m.blank_lines {
        s.push('\n');
    }
    for it in &m.items {
        match it {
            Item::Fn { name, ret_bool, body } => s.push_str(&format!("pub fn {name}() -> {} {{\n    {body}\n}}\n", if *ret_bool { "bool" } else { "u64" })),
            Item::Struct { name, fields, ctor_fields } => {
                s.push_str(&format!("pub struct {name} {{\n"));
                for (f, b) in fields {
                    s.push_str(&format!("    pub {f}: {},\n", if *b { "bool" } else { "u64" }));
                }
                s.push_str("}\n");
                s.push_str(&format!("pub fn mk_{}() -> {name} {{\n    {name} {{ ", name.to_lowercase()));
                for (f, b) in ctor_fields {
                    s.push_str(&format!("{f}: {}, ", if *b { "true" } else { "1" }));
                }
                s.push_str("}\n}\n");
            }
            Item::Const { name, val } => s.push_str(&format!("pub const {name}: u64 = {val};\n")),
            Item::Comment(c) => s.push_str(&format!("// {c}\n")),
        }
    }
    if m.broken {
        s.push_str("pub fn broken_syntax( -> {\n");
    }
    s
}

struct Project {
    root: Module,
    subs: Vec<Module>,
    /// a module file that exists on disk from the start but is only declared (`pub mod delta;`) by an edit of the root
    extra: Module,
    extra_declared: bool,
    /// (importer, imported) sibling pairs
    sibling_imports: Vec<(usize, usize)>,
    /// a module below the first submodule (`src/alpha/inner.sw`, declared by `pub mod inner;` in alpha.sw): the
    /// module tree is three levels deep and edits can land two `mod` levels below the root
    nested: Option<Module>,
}

fn gen_project(rng: &mut Rng, warn_class: bool) -> Project {
    let nsub = rng.range(1, 3);
    let names = ["alpha", "beta", "gamma"];
    let mut subs: Vec<Module> = vec![];
    for i in 0..nsub {
        let n = names[i];
        let mut items = vec![
            Item::Fn { name: format!("{n}_f0"), ret_bool: false, body: format!("{}", 10 + i) },
            Item::Struct { name: format!("S{}{}", n[..1].to_uppercase(), &n[1..]), fields: vec![("x".into(), false), ("y".into(), true)], ctor_fields: vec![("x".into(), false), ("y".into(), true)] },
            Item::Const { name: format!("K_{}", n.to_uppercase()), val: 5 + i as u64 },
        ];
        if rng.chance(1, 2) {
            items.push(Item::Fn { name: format!("{n}_f1"), ret_bool: false, body: format!("{n}_f0()") });
        }
        // class W: a module that carries a warning of its own (non-idiomatic name) — modules served from the
        // cache lose their diagnostics after an edit elsewhere (known finding C26-K2)
        if warn_class && i == 0 {
            items.push(Item::Fn { name: format!("{n}_NotSnake"), ret_bool: false, body: "1".into() });
        }
        subs.push(Module { name: n.to_string(), uses: vec![], items, broken: false, blank_lines: 0 });
    }
    // sibling imports (the known trigger of C26-K1) in about half of the multi-module projects
    let mut sibling_imports = vec![];
    if nsub >= 2 && rng.chance(1, 2) {
        let importer = rng.below(nsub);
        let imported = (importer + 1 + rng.below(nsub - 1)) % nsub;
        let iname = subs[imported].name.clone();
        subs[importer].uses.push(format!("::{iname}::{iname}_f0"));
        let mname = subs[importer].name.clone();
        subs[importer].items.push(Item::Fn { name: format!("{mname}_via"), ret_bool: false, body: format!("{iname}_f0()") });
        if rng.chance(1, 2) {
            let sname = format!("S{}{}", iname[..1].to_uppercase(), &iname[1..]);
            subs[importer].uses.push(format!("::{iname}::{sname}"));
            subs[importer].items.push(Item::Fn { name: format!("{mname}_mk"), ret_bool: false, body: format!("let s = {sname} {{ x: 2, y: false }};\n    s.x") });
        }
        sibling_imports.push((importer, imported));
    }
    let mut root = Module { name: "lib".into(), uses: vec![], items: vec![], broken: false, blank_lines: 0 };
    let mut body = String::from("0");
    for sm in &subs {
        root.uses.push(format!("{}::{}_f0", sm.name, sm.name));
        body = format!("__add({body}, {}_f0())", sm.name);
    }
    root.items.push(Item::Fn { name: "top".into(), ret_bool: false, body });
    let nested = if rng.chance(1, 3) {
        let m = Module { name: "inner".into(), uses: vec![], items: vec![Item::Fn { name: "inner_f0".into(), ret_bool: false, body: "77".into() }, Item::Const { name: "K_INNER".into(), val: 3 }, Item::Struct { name: "SInner".into(), fields: vec![("x".into(), false), ("y".into(), true)], ctor_fields: vec![("x".into(), false), ("y".into(), true)] }], broken: false, blank_lines: 0 };
        let an = subs[0].name.clone();
        subs[0].items.push(Item::Fn { name: format!("{an}_deep"), ret_bool: false, body: "inner::inner_f0()".into() });
        Some(m)
    } else {
        None
    };
    let extra = Module { name: "delta".into(), uses: vec![], items: vec![Item::Fn { name: "delta_f0".into(), ret_bool: false, body: "4321".into() }, Item::Const { name: "K_DELTA".into(), val: 9 }], broken: false, blank_lines: 0 };
    Project { root, subs, sibling_imports, extra, extra_declared: false, nested }
}

/// One edit of module `mi` (usize::MAX = root). Returns a label for traces.
fn mutate(rng: &mut Rng, m: &mut Module, counter: &mut usize) -> String {
    loop {
        match rng.below(13) {
            0 => {
                *counter += 1;
                let nm = format!("{}_new{}", m.name, *counter);
                m.items.push(Item::Fn { name: nm.clone(), ret_bool: rng.chance(1, 4), body: if rng.chance(1, 4) { "true".into() } else { format!("{}", rng.below(100)) } });
                return format!("add fn {nm}");
            }
            1 => {
                if let Some(pos) = m.items.iter().rposition(|i| matches!(i, Item::Fn { name, .. } if name.contains("_new"))) {
                    m.items.remove(pos);
                    return "delete an added fn".into();
                }
            }
            2 => {
                // rename a declaration without its uses (introduces an unknown-symbol error if it is used)
                let fns: Vec<usize> = m.items.iter().enumerate().filter(|(_, i)| matches!(i, Item::Fn { .. })).map(|(k, _)| k).collect();
                if let Some(&k) = fns.get(rng.below(fns.len().max(1))) {
                    if let Item::Fn { name, .. } = &mut m.items[k] {
                        if name.ends_with("_rn") {
                            *name = name.trim_end_matches("_rn").to_string();
                            return "rename a fn back".into();
                        } else if name != "top" {
                            name.push_str("_rn");
                            return "rename a fn declaration only".into();
                        }
                    }
                }
            }
            3 => {
                let fns: Vec<usize> = m.items.iter().enumerate().filter(|(_, i)| matches!(i, Item::Fn { .. })).map(|(k, _)| k).collect();
                if let Some(&k) = fns.get(rng.below(fns.len().max(1))) {
                    if let Item::Fn { ret_bool, .. } = &mut m.items[k] {
                        *ret_bool = !*ret_bool;
                        return "toggle a return type (type error or fix)".into();
                    }
                }
            }
            4 => {
                if let Some(Item::Struct { fields, .. }) = m.items.iter_mut().find(|i| matches!(i, Item::Struct { .. })) {
                    if fields.len() < 4 {
                        fields.push((format!("z{}", fields.len()), rng.chance(1, 2)));
                        return "add a struct field (constructor now incomplete)".into();
                    }
                }
            }
            5 => {
                if let Some(Item::Struct { fields, ctor_fields, .. }) = m.items.iter_mut().find(|i| matches!(i, Item::Struct { .. })) {
                    if fields != ctor_fields {
                        *ctor_fields = fields.clone();
                        return "fix the constructor".into();
                    } else if fields.len() > 1 {
                        fields.pop();
                        return "remove a struct field (constructor now has an unknown field)".into();
                    }
                }
            }
            6 => {
                m.broken = !m.broken;
                return if m.broken { "break the syntax".into() } else { "repair the syntax".into() };
            }
            7 => {
                m.blank_lines = (m.blank_lines + 1) % 3;
                return "whitespace only".into();
            }
            8 => {
                *counter += 1;
                m.items.push(Item::Comment(format!("note {}", *counter)));
                return "add a comment".into();
            }
            9 => {
                if let Some(Item::Const { val, .. }) = m.items.iter_mut().find(|i| matches!(i, Item::Const { .. })) {
                    *val += 1;
                    return "change a constant".into();
                }
            }
            10 => {
                // a same-length edit that changes the meaning: a 4-digit literal becomes `true` (type error in a
                // u64 function) or back — length and line structure of the file stay exactly the same
                let fns: Vec<usize> = m.items.iter().enumerate().filter(|(_, i)| matches!(i, Item::Fn { body, .. } if body == "true" || (body.len() == 4 && body.chars().all(|c| c.is_ascii_digit())))).map(|(k, _)| k).collect();
                if let Some(&k) = fns.get(rng.below(fns.len().max(1))) {
                    if let Item::Fn { body, .. } = &mut m.items[k] {
                        *body = if body == "true" { format!("{}", 1000 + rng.below(9000)) } else { "true".to_string() };
                        return "same-length edit (4-digit literal <-> true)".into();
                    }
                } else {
                    *counter += 1;
                    m.items.push(Item::Fn { name: format!("{}_lit{}", m.name, *counter), ret_bool: false, body: format!("{}", 1000 + rng.below(9000)) });
                    return "add a fn with a 4-digit literal".into();
                }
            }
            _ => {
                let fns: Vec<usize> = m.items.iter().enumerate().filter(|(_, i)| matches!(i, Item::Fn { body, .. } if body.chars().all(|c| c.is_ascii_digit()))).map(|(k, _)| k).collect();
                if let Some(&k) = fns.get(rng.below(fns.len().max(1))) {
                    if let Item::Fn { body, .. } = &mut m.items[k] {
                        *body = format!("{}", rng.below(1000));
                        return "change a literal".into();
                    }
                }
            }
        }
    }
}

fn gen(rng: &mut Rng, _sub: u64) -> Workload {
    let warn_class = rng.chance(1, 12);
    // measured: a std-using run takes minutes under the scheduler (every didOpen/didChange re-traverses the std token map);
    // the class is therefore off unless C26_STD=1 is set (exploratory use only)
    let with_std = std::env::var("C26_STD").is_ok() && rng.chance(1, 16);
    let mut p = gen_project(rng, warn_class);
    if with_std {
        p.root.items.push(Item::Fn { name: "uses_std".into(), ret_bool: false, body: "let mut v: Vec<u64> = Vec::new();\n    v.push(3);\n    let o: Option<u64> = v.get(0);\n    match o {\n        Some(x) => x,\n        None => 0,\n    }".into() });
    }
    let base_names: Vec<String> = p.subs.iter().map(|m| m.name.clone()).collect();
    let mod_names = |p: &Project| -> Vec<String> {
        let mut v = base_names.clone();
        if p.extra_declared {
            v.push("delta".into());
        }
        v
    };
    let mut files = vec![("src/lib.sw".to_string(), render(&p.root, &mod_names(&p)))];
    let has_nested = p.nested.is_some();
    let sub_mods = move |i: usize| -> Vec<String> { if has_nested && i == 0 { vec!["inner".to_string()] } else { vec![] } };
    for (i, m) in p.subs.iter().enumerate() {
        files.push((format!("src/{}.sw", m.name), render(m, &sub_mods(i))));
    }
    files.push(("src/delta.sw".to_string(), render(&p.extra, &[])));
    let delta_doc = files.len() - 1;
    let nested_doc = p.nested.as_ref().map(|m| {
        files.push((format!("src/{}/inner.sw", p.subs[0].name), render(m, &[])));
        files.len() - 1
    });
    let mut events = vec![Ev::Open { doc: 0 }];
    for d in 1..files.len() {
        if rng.chance(2, 3) {
            events.push(Ev::Open { doc: d });
        }
    }
    // class F (trigger-free): never edit a module that a sibling imports; class T: may
    let class_t = !p.sibling_imports.is_empty() && rng.chance(1, 3);
    let imported: Vec<usize> = p.sibling_imports.iter().map(|x| x.1).collect();
    let n = rng.range(1, 12);
    // class Q (quiescent edits): the client saves after every edit and waits for the answer, so every
    // compilation runs to completion — the fault-free batch
    let quiescent = rng.chance(1, 2);
    let single_doc = rng.chance(1, 3);
    let the_doc = rng.below(files.len());
    let mut version = vec![1i32; files.len()];
    let mut counter = 0usize;
    for _ in 0..n {
        // which document: 0 = root, k = sub k-1
        let mut doc = if single_doc { the_doc } else { rng.below(files.len()) };
        if has_nested && rng.chance(1, 3) {
            doc = nested_doc.unwrap(); // bias towards the deepest module
        }
        if !class_t && doc >= 1 && doc != delta_doc && Some(doc) != nested_doc && imported.contains(&(doc - 1)) {
            doc = 0;
        }
        let text = if doc == 0 {
            if rng.chance(1, 5) {
                // module-tree edit: declare / undeclare the extra module
                p.extra_declared = !p.extra_declared;
            } else {
                mutate(rng, &mut p.root, &mut counter);
            }
            render(&p.root, &mod_names(&p))
        } else if doc == delta_doc {
            mutate(rng, &mut p.extra, &mut counter);
            render(&p.extra, &[])
        } else if Some(doc) == nested_doc {
            let m = p.nested.as_mut().unwrap();
            mutate(rng, m, &mut counter);
            render(m, &[])
        } else {
            mutate(rng, &mut p.subs[doc - 1], &mut counter);
            render(&p.subs[doc - 1], &sub_mods(doc - 1))
        };
        version[doc] += 1;
        events.push(Ev::Change { doc, version: version[doc], changes: vec![Change { range: None, text }] });
        if quiescent {
            events.push(Ev::Save { doc });
        } else {
            match rng.below(6) {
                0 => events.push(Ev::Save { doc }),
                1 => events.push(Ev::Req { doc, kind: rng.pick(&["documentSymbol", "semanticTokens", "inlayHint"]).to_string() }),
                _ => {}
            }
        }
    }
    // class STD (1 run in 16): the project depends on the real standard library (first compile takes seconds, later
    // ones reuse the cached std programs) and the root uses std types
    let manifest = if with_std {
        "[project]\nauthors = [\"sim\"]\nentry = \"lib.sw\"\nlicense = \"Apache-2.0\"\nname = \"simlib\"\n\n[dependencies]\nstd = { path = \"/repo/sway-lib-std\" }\n".to_string()
    } else {
        crate::c24::MANIFEST.to_string()
    };
    Workload { files, manifest, events, gc: rng.chance(1, 2) }
}

fn is_quiescent(wl: &Workload) -> bool {
    // every didChange is immediately followed by a didSave of the same document
    wl.events.iter().enumerate().all(|(i, e)| match e {
        Ev::Change { doc, .. } => matches!(wl.events.get(i + 1), Some(Ev::Save { doc: d2 }) if d2 == doc),
        _ => true,
    })
}

fn opts(rng: &mut Rng, sub: u64) -> SimOpts {
    // fault-free batch (class Q: strictly sequential delivery, save after every edit) and cancellation batch are separate.
    // The workload stream is independent of this one, so re-derive the class from the same sub-seed.
    let mut wr = Rng::stream(sub, "workload");
    let sequential = is_quiescent(&gen(&mut wr, sub)) || rng.chance(1, 6);
    SimOpts { io_enabled: !sequential && rng.chance(1, 2), step_cap: 60_000, max_in_flight: if sequential { 1 } else { 4 }, gate_first: sequential || rng.chance(1, 2), observe_all: true, reference: true }
}

fn imports_of(wl: &Workload) -> Vec<(usize, usize)> {
    // (importer doc, imported doc) for sibling `use ::x::…` lines in the *initial* texts
    let mut v = vec![];
    for (i, (_, text)) in wl.files.iter().enumerate().skip(1) {
        for (j, (rel, _)) in wl.files.iter().enumerate().skip(1) {
            let name = rel.trim_start_matches("src/").trim_end_matches(".sw");
            if i != j && text.contains(&format!("use ::{name}::")) {
                v.push((i, j));
            }
        }
    }
    v
}

fn edits_imported_module(wl: &Workload) -> bool {
    let imp = imports_of(wl);
    wl.events.iter().any(|e| matches!(e, Ev::Change { doc, .. } if imp.iter().any(|(_, j)| j == doc)))
}

fn judge(wl: &Workload, r: &SimResult) -> Option<(String, String)> {
    if r.out.infeasible {
        return None;
    }
    if let Some(p) = r.out.panics.first() {
        return Some(("P".into(), format!("an actor of the incremental server panicked: {p}")));
    }
    if r.out.cap_hit || r.out.handler_deadlock.is_some() || !r.out.pending_at_quiescence.is_empty() || r.obs.probe_hung {
        return None; // scheduling liveness is C24's property
    }
    if let Some(f) = &r.obs.ref_failed {
        simcore::harness_error(&format!("C26 reference server failed: {f}"));
    }
    if r.obs.ref_symbols.is_empty() {
        return None;
    }
    let names: Vec<&str> = wl.files.iter().map(|f| f.0.as_str()).collect();
    // diagnostics of all files
    let inc_d = r.obs.diagnostics.clone().unwrap_or_default();
    let ref_d = r.obs.ref_diagnostics.clone().unwrap_or_default();
    if inc_d != ref_d {
        let a: Vec<&str> = inc_d.lines().collect();
        let b: Vec<&str> = ref_d.lines().collect();
        let only_inc: Vec<&&str> = a.iter().filter(|l| !b.contains(l)).take(2).collect();
        let only_ref: Vec<&&str> = b.iter().filter(|l| !a.contains(l)).take(2).collect();
        return Some(("D".into(), format!("diagnostics differ from a fresh compilation of the same text: only incremental {only_inc:?}; only fresh {only_ref:?}")));
    }
    // program structure, only where the fresh compilation yields a program for that file
    for (i, fresh) in r.obs.ref_symbols.iter().enumerate() {
        let Some(fresh) = fresh else { continue };
        if fresh == "null" || fresh.is_empty() || fresh == "[]" {
            continue;
        }
        let inc = r.obs.probe_symbols.get(i).cloned().flatten().unwrap_or_default();
        if &inc != fresh {
            let names_of = |s: &str| -> Vec<String> { s.match_indices("\"name\":\"").map(|(k, _)| s[k + 8..].split('"').next().unwrap_or("").to_string()).collect() };
            return Some(("Y".into(), format!("documentSymbol of {} differs from a fresh compilation: incremental {:?} / fresh {:?}", names[i], names_of(&inc), names_of(fresh))));
        }
    }
    None
}

/// A compilation was cancelled iff some handler got past the hook in front of `retrigger_compilation.store(true)`
/// (it only goes there when it saw `is_compiling`). Counting abort points does not work: a compilation that
/// reuses the cached programs also passes very few of them.
fn cancelled_compiles(r: &SimResult) -> usize {
    r.out.steps.iter().filter(|st| st.choice == crate::sched::Choice::C && st.site == "send.store_retrigger_true").count()
}

fn last_edited_doc(wl: &Workload) -> Option<usize> {
    wl.events.iter().rev().find_map(|e| if let Ev::Change { doc, .. } = e { Some(*doc) } else { None })
}

fn sig(wl: &Workload, r: &SimResult) -> Vec<String> {
    let mut s = vec![];
    if wl.files.iter().any(|f| f.1.contains("_NotSnake")) {
        s.push("module-with-own-warning".to_string());
    }
    if edits_imported_module(wl) {
        s.push("edit-to-sibling-imported-module".to_string());
    }
    let docs: std::collections::BTreeSet<usize> = wl.events.iter().filter_map(|e| if let Ev::Change { doc, .. } = e { Some(*doc) } else { None }).collect();
    if docs.len() >= 2 {
        s.push("edits-multiple-documents".into());
    }
    if docs.iter().any(|d| wl.files[*d].0.ends_with("/inner.sw")) {
        s.push("edits-nested-module".into());
    }
    if cancelled_compiles(r) > 0 {
        s.push("cancelled-compile".into());
    }
    // class Q: a save follows every edit (delivery is then strictly sequential, see `opts`) and no compile was cancelled
    if is_quiescent(wl) && cancelled_compiles(r) == 0 {
        s.push("quiescent-edits".into());
    }
    if wl.gc {
        s.push("gc-on".into());
    }
    // which panic (clause P): a known finding must name its panic, so that another one is still reported
    if let Some(p) = r.out.panics.first() {
        s.push(if p.contains("invalid slab index") {
            "panic:invalid-slab-index"
        } else if p.contains("Could not retrieve submodule for mod_path") {
            "panic:submodule-missing-from-namespace"
        } else {
            "panic:other"
        }.to_string());
    }
    // where do the two servers disagree?
    if let (Some(inc), Some(fresh), Some(last)) = (&r.obs.diagnostics, &r.obs.ref_diagnostics, last_edited_doc(wl)) {
        // diagnostics are keyed by file name (sim.rs), so compare on the base name
        let last_name = wl.files[last].0.rsplit('/').next().unwrap_or("");
        let differing: Vec<&str> = fresh.lines().filter(|l| !inc.lines().any(|x| x == *l)).chain(inc.lines().filter(|l| !fresh.lines().any(|x| x == *l))).collect();
        if !differing.is_empty() && differing.iter().all(|l| !l.starts_with(last_name)) {
            s.push("diagnostics-differ-only-in-files-not-edited-last".into());
        }
    }
    s
}

fn probes(wl: &Workload, r: &SimResult) -> Vec<String> {
    let mut p = vec![];
    if edits_imported_module(wl) {
        p.push("class-T(edit to a sibling-imported module)".to_string());
    }
    if !imports_of(wl).is_empty() {
        p.push("project-has-sibling-import".into());
    }
    if wl.gc {
        p.push("gc-enabled".into());
    }
    if cancelled_compiles(r) > 0 {
        p.push("compile-cancelled-mid-way".into());
    }
    if is_quiescent(wl) {
        p.push("class-Q(save after every edit, sequential)".into());
    }
    if r.obs.ref_diagnostics.as_deref().map(|d| !d.is_empty()).unwrap_or(false) {
        p.push("final-text-has-diagnostics".into());
    }
    if r.obs.ref_symbols.first().map(|s| s.as_deref() == Some("null")).unwrap_or(false) {
        p.push("final-text-does-not-parse".into());
    }
    if wl.files.len() > 2 {
        p.push("three-or-more-files".into());
    }
    if wl.files.iter().any(|f| f.0.ends_with("/inner.sw")) {
        p.push("module-tree-three-levels-deep".into());
        if wl.events.iter().any(|e| matches!(e, Ev::Change { doc, .. } if wl.files[*doc].0.ends_with("/inner.sw"))) {
            p.push("edit-two-mod-levels-below-the-root".into());
        }
    }
    if wl.manifest.contains("sway-lib-std") {
        p.push("class-STD(project uses the real standard library)".into());
    }
    if wl.files.iter().any(|f| f.1.contains("_NotSnake")) {
        p.push("class-W(module with a warning of its own)".into());
    }
    p
}

fn droppable(e: &Ev) -> bool {
    !matches!(e, Ev::Open { doc: 0 })
}

fn well_formed(_wl: &Workload) -> bool {
    true // every change is a full-document replacement
}

pub const DEF: PropDef = PropDef {
    id: "C26",
    gen,
    opts,
    judge,
    sig,
    probes,
    droppable,
    well_formed,
    deviation_signature: false,
    group_change_save: true,
    rule: "one evaluation = one simulated run: a seeded 2-4 file no-std library (structs, constructors, consts, fns, optional sibling `use` imports) and a seeded history of 1-12 item-level edits (add/delete/rename items, toggle types, add/remove struct fields, break/repair syntax, whitespace), delivered as didChange (+ some didSave/requests) to the real incremental server under the seeded scheduler, so that compilations are cancelled at arbitrary abort points and GC / cache reuse vary; one third of the runs deliver strictly sequentially (fault-free batch). At quiescence a fresh server instance compiles the same final text; diagnostics of all files must be equal, and documentSymbol of every file for which the fresh compilation yields a program. distinct+non-trivial = distinct decision traces",
    components_real: &["sway_lsp::ServerState (incremental): module/program caches, GC, engines clone/commit/swap", "sway-core / forc-pkg compilation", "a second, fresh ServerState as the reference"],
    components_stub: &["JSON-RPC transport and tower-lsp router (dispatcher model)", "LSP client", "entropy (seeded shim)", "ps (fake)"],
    assumptions: &["the oracle is the same implementation compiling from scratch", "structure is compared only where the fresh compilation yields a program (the incremental server keeps the last good symbols by design when the text does not parse)"],
    default_runs: (1600, 40000),
    default_wall: (300, 2700),
    default_workers: 6,
    level: "exploration",
};
