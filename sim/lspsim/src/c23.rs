//! C23 — LSP document sync reproduces the client's text. DESIGN.md §4.6.
use crate::driver::PropDef;
use crate::model::{Change, Doc};
use crate::sim::{client_model, Ev, SimOpts, SimResult, Workload};
use simcore::Rng;

const ALPHA_ASCII: &[&str] = &["a", "b", "x", "_", " ", "0", "7", "(", ")", "{", "}", ";", "/", "\"", "u64", "fn ", "pub "];
const ALPHA_BMP: &[&str] = &["é", "ß", "π", "ж", "中", "文", "✓", "€", "‑"];
const ALPHA_ASTRAL: &[&str] = &["😀", "𝒳", "🦀", "𐍈"];

fn rand_text(rng: &mut Rng, alpha: &[&str], max_tokens: usize, newline: &str, allow_nl: bool) -> String {
    let n = rng.below(max_tokens + 1);
    let mut s = String::new();
    for _ in 0..n {
        if allow_nl && rng.chance(1, 8) {
            s.push_str(newline);
        } else {
            s.push_str(*rng.pick(alpha));
        }
    }
    s
}

/// all valid UTF-16 columns of line `l` (never inside a surrogate pair, never past the line's content)
fn valid_cols(d: &Doc, l: usize) -> Vec<u32> {
    let mut v = vec![0u32];
    let mut u = 0u32;
    for ch in d.line(l).chars() {
        u += ch.len_utf16() as u32;
        v.push(u);
    }
    v
}

fn gen(rng: &mut Rng, _sub: u64) -> Workload {
    // swarm: alphabet and line ending per run
    let level = rng.below(4); // 0 ascii, 1 +bmp, 2 +astral, 3 all
    let mut alpha: Vec<&str> = ALPHA_ASCII.to_vec();
    if level >= 1 {
        alpha.extend_from_slice(ALPHA_BMP);
    }
    if level >= 2 {
        alpha.extend_from_slice(ALPHA_ASTRAL);
        alpha.extend_from_slice(ALPHA_ASTRAL);
    }
    let newline = if rng.chance(1, 3) { "\r\n" } else { "\n" };
    // initial document: a valid library whose comments and string literal carry the alphabet
    let mut text = format!("library;{newline}");
    let nlines = rng.range(2, 6);
    for i in 0..nlines {
        match rng.below(3) {
            0 => text.push_str(&format!("// {}{newline}", rand_text(rng, &alpha, 8, newline, false))),
            1 => text.push_str(&format!("pub fn f{i}() -> u64 {{ {i} }} // {}{newline}", rand_text(rng, &alpha, 5, newline, false))),
            _ => text.push_str(&format!("pub const S{i}: str = \"{}\";{newline}", rand_text(rng, &alpha, 6, newline, false).replace('"', "'").replace('/', "-"))),
        }
    }
    if rng.chance(1, 2) {
        text.push_str("// last line without terminator");
    }
    let files = vec![("src/lib.sw".to_string(), text.clone())];
    let mut model = Doc::new(&text);
    let mut events = vec![Ev::Open { doc: 0 }];
    let n = rng.range(3, 12);
    let mut version = 1;
    let mut saved = model.clone();
    let reopen_at = if rng.chance(1, 4) { Some(rng.below(n)) } else { None };
    for step in 0..n {
        if reopen_at == Some(step) {
            // close the document (after saving it, or not) and open it again: it then shows its saved state
            if rng.chance(1, 2) {
                events.push(Ev::Save { doc: 0 });
                saved = model.clone();
            }
            events.push(Ev::Close { doc: 0 });
            events.push(Ev::Open { doc: 0 });
            model = saved.clone();
        }
        match rng.below(12) {
            0 => {
                events.push(Ev::Save { doc: 0 });
                saved = model.clone();
            }
            1 => events.push(Ev::Req { doc: 0, kind: "documentSymbol".into() }),
            _ => {
                version += 1;
                let k = rng.range(1, 3);
                let mut changes = vec![];
                for ci in 0..k {
                    let last = ci + 1 == k;
                    let roll = rng.below(20);
                    let c = if roll == 0 {
                        Change { range: None, text: rand_text(rng, &alpha, 20, newline, true) }
                    } else if roll == 1 && last {
                        // clearly invalid: start after end. (A line or character past the end is *not* invalid: the
                        // protocol clamps it, and such positions are not generated at all.)
                        let lc = model.line_count();
                        let l = rng.below(lc);
                        let cols = valid_cols(&model, l);
                        if lc >= 2 && rng.chance(1, 2) {
                            let l = 1 + rng.below(lc - 1) as u32;
                            Change { range: Some((l, 0, l - 1, 0)), text: "X".into() }
                        } else if cols.len() >= 2 {
                            Change { range: Some((l as u32, cols[cols.len() - 1], l as u32, cols[0])), text: "X".into() }
                        } else {
                            // no invalid range exists over exact positions of this document: send a no-op edit
                            Change { range: Some((l as u32, 0, l as u32, 0)), text: String::new() }
                        }
                    } else {
                        let lc = model.line_count();
                        let sl = rng.below(lc);
                        let el = (sl + if rng.chance(2, 3) { 0 } else { rng.below(3) }).min(lc - 1);
                        let scs = valid_cols(&model, sl);
                        let sc = *rng.pick(&scs);
                        let ecs: Vec<u32> = valid_cols(&model, el).into_iter().filter(|c| el > sl || *c >= sc).collect();
                        let ec = *rng.pick(&ecs);
                        Change { range: Some((sl as u32, sc, el as u32, ec)), text: rand_text(rng, &alpha, 6, newline, true) }
                    };
                    let _ = model.apply(&c);
                    changes.push(c);
                }
                events.push(Ev::Change { doc: 0, version, changes });
            }
        }
    }
    Workload { files, manifest: crate::c24::MANIFEST.to_string(), events, gc: false }
}

fn opts(rng: &mut Rng, _sub: u64) -> SimOpts {
    // fault-free configuration (handlers one at a time, I/O at once) and interleaving configuration are separate
    let interleave = rng.chance(1, 2);
    SimOpts { io_enabled: interleave, step_cap: 30_000, max_in_flight: if interleave { 4 } else { 1 }, gate_first: rng.chance(1, 2), observe_all: false, reference: false }
}

fn show(s: &str) -> String {
    let t: String = s.chars().take(60).collect();
    format!("{:?}{}", t, if s.chars().count() > 60 { "…" } else { "" })
}

fn judge(wl: &Workload, r: &SimResult) -> Option<(String, String)> {
    if r.out.infeasible {
        return None;
    }
    if let Some(p) = r.out.panics.first() {
        return Some(("P".into(), format!("the server crashed: {p}")));
    }
    if r.out.cap_hit || r.out.handler_deadlock.is_some() {
        return None; // scheduling liveness is C24's clause, not judged here
    }
    let m = client_model(wl);
    for (i, server) in &r.obs.after_change {
        let want = &m.after[i];
        let invalid = m.invalid.contains(i);
        match server {
            None => return Some(("S".into(), format!("after {} the server has no copy of the document at all", r.names[*i]))),
            Some(s) if s != want => {
                // Documents are updated synchronously in each handler's first poll, in arrival order, so when
                // handler i completes the server copy contains messages 0..=i; it may also contain later messages
                // (changes, a re-open) whose handlers were already polled.
                let later_ok = m.snap.iter().skip(i + 1).any(|docs| &docs[0] == s);
                if !later_ok {
                    return Some(("S".into(), format!("after {} ({}) the server's copy differs from the client's: server {} / client {}", r.names[*i], if invalid { "an invalid change, which must alter nothing" } else { "a valid change" }, show(s), show(want))));
                }
            }
            _ => {}
        }
    }
    if !r.out.pending_at_quiescence.is_empty() || r.obs.probe_hung {
        return None; // C24 (a)
    }
    if let Some(Some(s)) = r.obs.final_server_text.first() {
        if s != &m.docs[0].text {
            return Some(("Q".into(), format!("at quiescence the server's copy differs from the client's: server {} / client {}", show(s), show(&m.docs[0].text))));
        }
    } else if !r.obs.final_server_text.is_empty() {
        return Some(("Q".into(), "at quiescence the server has no copy of the open document".into()));
    }
    let changed = wl.events.iter().any(|e| matches!(e, Ev::Change { .. }));
    if changed {
        if let Some(Some(f)) = r.obs.final_temp_file.first() {
            // the file is only rewritten by valid, applied changes; it must equal the client's text whenever the
            // last notification was valid
            let last_change = wl.events.iter().enumerate().filter(|(_, e)| matches!(e, Ev::Change { .. })).map(|(i, _)| i).last().unwrap();
            if !m.invalid.contains(&last_change) && f != &m.docs[0].text {
                return Some(("Q".into(), format!("at quiescence the temp-workspace file differs from the client's text: file {} / client {}", show(f), show(&m.docs[0].text))));
            }
        }
    }
    None
}

fn sig(wl: &Workload, _r: &SimResult) -> Vec<String> {
    let mut s = vec![];
    let mut non_ascii = false;
    let mut astral = false;
    let mut crlf = false;
    let mut invalid = false;
    let mut scan = |t: &str| {
        non_ascii |= !t.is_ascii();
        astral |= t.chars().any(|c| c.len_utf16() == 2);
        crlf |= t.contains("\r\n");
    };
    scan(&wl.files[0].1);
    let m = client_model(wl);
    invalid |= !m.invalid.is_empty();
    for e in &wl.events {
        if let Ev::Change { changes, .. } = e {
            for c in changes {
                scan(&c.text);
            }
        }
        s.push(format!("ev:{}", match e { Ev::Open { .. } => "didOpen", Ev::Change { .. } => "didChange", Ev::Save { .. } => "didSave", Ev::Req { .. } => "request", Ev::Close { .. } => "didClose", Ev::Deleted { .. } => "deleted" }));
    }
    if non_ascii {
        s.push("text:non-ascii".into());
    }
    if astral {
        s.push("text:astral".into());
    }
    if crlf {
        s.push("text:crlf".into());
    }
    if invalid {
        s.push("change:invalid-range".into());
    }
    if wl.events.iter().filter(|e| matches!(e, Ev::Open { .. })).count() >= 2 {
        s.push("reopened-after-close".into());
    }
    s.sort();
    s.dedup();
    s
}

fn probes(wl: &Workload, r: &SimResult) -> Vec<String> {
    let mut p: Vec<String> = sig(wl, r).into_iter().filter(|x| !x.starts_with("ev:")).collect();
    let m = client_model(wl);
    // ranged change at a position after a multi-byte character
    for (i, e) in wl.events.iter().enumerate() {
        if let Ev::Change { changes, .. } = e {
            let before = Doc::new(&m.before[&i]);
            if let Some(Change { range: Some((sl, sc, _, _)), .. }) = changes.first() {
                if (*sl as usize) < before.line_count() && *sc > 0 && !before.line(*sl as usize).chars().take(*sc as usize).all(|c| c.is_ascii()) {
                    p.push("ranged-change-after-multibyte-char".into());
                }
            }
        }
    }
    let open_done = r.out.completed.iter().find(|(id, _)| *id == 0).map(|x| x.1);
    if r.out.admitted.iter().any(|(id, at)| matches!(wl.events[*id], Ev::Change { .. }) && open_done.map(|d| *at < d).unwrap_or(true)) {
        p.push("didChange-polled-before-didOpen-completed".into());
    }
    p.sort();
    p.dedup();
    p
}

fn droppable(_e: &Ev) -> bool {
    true // `well_formed` keeps the history sensible (first message is the didOpen, nothing is sent to a closed document)
}

/// Every position of every ranged change is an exact position of the client model at that point (existing
/// line, column on a character boundary within the line's content); a change may only be invalid by having
/// its start after its end, and only as the last change of its notification.
fn well_formed(wl: &Workload) -> bool {
    let mut d = Doc::new(&wl.files[0].1);
    let mut saved = d.clone();
    let mut open = false;
    for e in &wl.events {
        match e {
            Ev::Save { .. } => saved = d.clone(),
            Ev::Close { .. } => {
                if !open {
                    return false;
                }
                open = false;
            }
            Ev::Open { .. } => {
                if !open {
                    d = saved.clone();
                    open = true;
                }
            }
            Ev::Change { .. } | Ev::Req { .. } => {
                if !open {
                    return false; // the client only edits / queries documents it has open
                }
            }
            _ => {}
        }
        if let Ev::Change { changes, .. } = e {
            for (k, c) in changes.iter().enumerate() {
                if let Some((sl, sc, el, ec)) = c.range {
                    let (Some(s), Some(e2)) = (d.offset(sl, sc), d.offset(el, ec)) else { return false };
                    if s > e2 {
                        if k + 1 != changes.len() {
                            return false;
                        }
                        break;
                    }
                    // equal offsets through different (line, col) pairs cannot happen with exact positions
                }
                let _ = d.apply(c);
            }
        }
    }
    true
}

pub const DEF: PropDef = PropDef {
    id: "C23",
    gen,
    opts,
    judge,
    sig,
    probes,
    droppable,
    well_formed,
    deviation_signature: true,
    group_change_save: false,
    rule: "one evaluation = one simulated run of the real ServerState: a seeded edit history (didOpen, then 3-12 notifications, each didChange with 1-3 full or ranged changes whose positions are valid UTF-16 positions of the client model, plus clearly invalid ranges) over documents whose alphabet (ASCII / 2-3-byte / astral, LF or CRLF) is chosen per run; half of the runs deliver the messages strictly one at a time with immediate I/O (fault-free configuration), half under the seeded scheduler with up to 4 handlers in flight; after every completed didChange handler and at quiescence the server's copy is compared with the UTF-16 client model; distinct+non-trivial = distinct decision traces",
    components_real: &["sway_lsp::ServerState, did_open/did_change/did_save handlers", "sway_lsp::core::document::{TextDocument, Documents}", "compile worker (running, not judged)", "tokio::fs on a 1-thread blocking pool"],
    components_stub: &["JSON-RPC transport and tower-lsp router (dispatcher model)", "LSP client", "entropy (seeded shim)", "ps (fake)"],
    assumptions: &["positions beyond the end of a line and positions inside a surrogate pair are never generated (their meaning is not fixed by the protocol)", "an invalid change is only ever the last change of a notification"],
    default_runs: (12000, 200000),
    default_wall: (240, 2400),
    default_workers: 4,
    level: "exploration",
};
