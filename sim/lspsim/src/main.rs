//! lspsim — engine B: `lspsim <c23|c24|c26> [--tier …] [--seed …] [--replay …]` (coordinator) and
//! `lspsim worker <ID> …` (one simulation process; the hooks are process-global).
mod c23;
mod c24;
mod c26;
mod driver;
mod model;
mod sched;
mod sim;

fn def_of(id: &str) -> &'static driver::PropDef {
    match id.to_uppercase().as_str() {
        "C24" => &c24::DEF,
        "C23" => &c23::DEF,
        "C26" => &c26::DEF,
        other => simcore::harness_error(&format!("unknown property {other}")),
    }
}

fn main() {
    let args: Vec<String> = std::env::args().skip(1).collect();
    if args.is_empty() {
        simcore::harness_error("usage: lspsim <c23|c24|c26> [options] | lspsim worker <ID> [options]");
    }
    let code = if args[0] == "worker" {
        let cli = simcore::Cli::parse(&args[2..]);
        driver::worker(def_of(&args[1]), &cli)
    } else {
        let cli = simcore::Cli::parse(&args[1..]);
        if !cli.flag("inproc") {
            println!("VERIF_SEED={} tier={} check={}", cli.seed, cli.tier, args[0]);
        }
        driver::coordinator(def_of(&args[0]), &cli)
    };
    std::process::exit(code);
}
