fn main() {}
