//! Shared core of the two simulation engines: seeded PRNG streams, hashing, delta-debugging,
//! known-findings matching, evidence writing, a small work pool. DESIGN.md §2.
use serde_json::{json, Value};
use std::collections::BTreeMap;
use std::sync::atomic::{AtomicUsize, Ordering};
use std::sync::Mutex;

// ------------------------------------------------------------------ PRNG
pub fn splitmix(s: &mut u64) -> u64 {
    *s = s.wrapping_add(0x9E3779B97F4A7C15);
    let mut z = *s;
    z = (z ^ (z >> 30)).wrapping_mul(0xBF58476D1CE4E5B9);
    z = (z ^ (z >> 27)).wrapping_mul(0x94D049BB133111EB);
    z ^ (z >> 31)
}

pub fn fnv64(bytes: &[u8]) -> u64 {
    let mut h: u64 = 0xcbf29ce484222325;
    for b in bytes {
        h ^= *b as u64;
        h = h.wrapping_mul(0x100000001b3);
    }
    h
}

/// Sub-seed derivation: H(seed, name, index). A run's behaviour depends on nothing else.
pub fn derive(seed: u64, name: &str, idx: u64) -> u64 {
    let mut s = seed ^ fnv64(name.as_bytes()).rotate_left(17) ^ idx.wrapping_mul(0xD6E8FEB86659FD93);
    let a = splitmix(&mut s);
    let b = splitmix(&mut s);
    a ^ b.rotate_left(31)
}

/// xoshiro256** seeded through splitmix64.
#[derive(Clone, Debug)]
pub struct Rng {
    s: [u64; 4],
    pub draws: u64,
}
impl Rng {
    pub fn new(seed: u64) -> Self {
        let mut x = seed;
        let s = [splitmix(&mut x), splitmix(&mut x), splitmix(&mut x), splitmix(&mut x)];
        Rng { s, draws: 0 }
    }
    pub fn stream(seed: u64, name: &str) -> Self {
        Rng::new(derive(seed, name, 0))
    }
    pub fn next_u64(&mut self) -> u64 {
        self.draws += 1;
        let r = self.s[1].wrapping_mul(5).rotate_left(7).wrapping_mul(9);
        let t = self.s[1] << 17;
        self.s[2] ^= self.s[0];
        self.s[3] ^= self.s[1];
        self.s[1] ^= self.s[2];
        self.s[0] ^= self.s[3];
        self.s[2] ^= t;
        self.s[3] = self.s[3].rotate_left(45);
        r
    }
    pub fn below(&mut self, n: usize) -> usize {
        if n <= 1 {
            return 0;
        }
        (self.next_u64() % n as u64) as usize
    }
    pub fn range(&mut self, lo: usize, hi_incl: usize) -> usize {
        lo + self.below(hi_incl - lo + 1)
    }
    pub fn chance(&mut self, num: u64, den: u64) -> bool {
        self.next_u64() % den < num
    }
    pub fn pick<'a, T>(&mut self, xs: &'a [T]) -> &'a T {
        &xs[self.below(xs.len())]
    }
}

// ------------------------------------------------------------------ ddmin
/// Classic delta debugging: returns a 1-minimal sub-list for which `test` is still true.
/// `test(full)` is assumed true. `budget` caps the number of test invocations.
pub fn ddmin<T: Clone>(items: Vec<T>, budget: usize, mut test: impl FnMut(&[T]) -> bool) -> Vec<T> {
    let mut cur = items;
    let mut n = 2usize;
    let mut used = 0usize;
    while cur.len() >= 2 && used < budget {
        let chunk = (cur.len() + n - 1) / n;
        let mut reduced = false;
        // try complements (remove one chunk)
        let mut i = 0;
        while i * chunk < cur.len() && used < budget {
            let lo = i * chunk;
            let hi = (lo + chunk).min(cur.len());
            let cand: Vec<T> = cur[..lo].iter().chain(cur[hi..].iter()).cloned().collect();
            used += 1;
            if !cand.is_empty() || true {
                if test(&cand) {
                    cur = cand;
                    n = (n - 1).max(2);
                    reduced = true;
                    break;
                }
            }
            i += 1;
        }
        if !reduced {
            if n >= cur.len() {
                break;
            }
            n = (n * 2).min(cur.len());
        }
    }
    if cur.len() == 1 && used < budget {
        let empty: Vec<T> = vec![];
        if test(&empty) {
            return empty;
        }
    }
    cur
}

// ------------------------------------------------------------------ CLI
#[derive(Clone, Debug)]
pub struct Cli {
    pub tier: String,
    pub seed: u64,
    pub replay: Option<String>,
    pub extra: BTreeMap<String, String>,
    pub flags: Vec<String>,
}
impl Cli {
    /// `--tier quick|thorough --seed N --replay file --key value … --flag`
    pub fn parse(args: &[String]) -> Cli {
        let mut c = Cli {
            tier: std::env::var("VERIF_TIER").unwrap_or_else(|_| "quick".into()),
            seed: std::env::var("VERIF_SEED").ok().and_then(|s| s.parse().ok()).unwrap_or(1),
            replay: None,
            extra: BTreeMap::new(),
            flags: vec![],
        };
        let mut i = 0;
        while i < args.len() {
            let a = &args[i];
            if let Some(k) = a.strip_prefix("--") {
                let has_val = i + 1 < args.len() && !args[i + 1].starts_with("--");
                if has_val {
                    let v = args[i + 1].clone();
                    match k {
                        "tier" => c.tier = v,
                        "seed" => c.seed = v.parse().unwrap_or_else(|_| harness_error("bad --seed")),
                        "replay" => c.replay = Some(v),
                        _ => {
                            c.extra.insert(k.to_string(), v);
                        }
                    }
                    i += 2;
                    continue;
                } else {
                    c.flags.push(k.to_string());
                }
            }
            i += 1;
        }
        if c.tier != "quick" && c.tier != "thorough" {
            harness_error("tier must be quick or thorough");
        }
        c
    }
    pub fn get(&self, k: &str) -> Option<&str> {
        self.extra.get(k).map(|s| s.as_str())
    }
    pub fn get_usize(&self, k: &str, default: usize) -> usize {
        self.get(k).and_then(|s| s.parse().ok()).unwrap_or(default)
    }
    pub fn flag(&self, k: &str) -> bool {
        self.flags.iter().any(|f| f == k)
    }
    pub fn thorough(&self) -> bool {
        self.tier == "thorough"
    }
}

/// Exit 2: something is wrong with the harness, never with the property.
pub fn harness_error(msg: &str) -> ! {
    eprintln!("HARNESS-ERROR: {msg}");
    println!("HARNESS-ERROR: {msg}");
    std::process::exit(2)
}

// ------------------------------------------------------------------ known findings
#[derive(Clone, Debug)]
pub struct Known {
    pub property: String,
    pub id: String,
    pub clause: String,
    /// every element must occur in the violation's signature set
    pub requires: Vec<String>,
    /// none of these may occur
    pub forbids: Vec<String>,
    /// if present: every signature element must be in `requires` or in this list
    pub only: Option<Vec<String>>,
    pub description: String,
}
#[derive(Clone, Debug, Default)]
pub struct KnownFindings {
    pub known: Vec<Known>,
    pub fixed: Vec<String>,
}
impl KnownFindings {
    pub fn load(path: &str) -> KnownFindings {
        // debugging aid: VERIF_KNOWN_FINDINGS=<file> (e.g. an empty file) to see replay files of known findings
        let path = &std::env::var("VERIF_KNOWN_FINDINGS").unwrap_or_else(|_| path.to_string());
        let Ok(txt) = std::fs::read_to_string(path) else { return KnownFindings::default() };
        let v: Value = serde_json::from_str(&txt).unwrap_or_else(|e| harness_error(&format!("known findings file unreadable: {e}")));
        let strs = |x: &Value| x.as_array().map(|a| a.iter().filter_map(|s| s.as_str().map(String::from)).collect::<Vec<_>>()).unwrap_or_default();
        let known = v["known"]
            .as_array()
            .cloned()
            .unwrap_or_default()
            .iter()
            .map(|k| Known {
                property: k["property"].as_str().unwrap_or("").into(),
                id: k["id"].as_str().unwrap_or("").into(),
                clause: k["clause"].as_str().unwrap_or("").into(),
                requires: strs(&k["requires"]),
                forbids: strs(&k["forbids"]),
                only: if k["only"].is_array() { Some(strs(&k["only"])) } else { None },
                description: k["description"].as_str().unwrap_or("").into(),
            })
            .collect();
        KnownFindings { known, fixed: strs(&v["fixed"]) }
    }
    /// A minimised violation (clause + signature set) matches a listed finding?
    pub fn matches(&self, property: &str, clause: &str, signature: &[String]) -> Option<&Known> {
        self.known.iter().find(|k| {
            k.property == property
                && k.clause == clause
                && k.requires.iter().all(|r| signature.iter().any(|s| s == r))
                && !k.forbids.iter().any(|f| signature.iter().any(|s| s == f))
                && k.only.as_ref().map_or(true, |only| signature.iter().all(|s| k.requires.contains(s) || only.contains(s)))
        })
    }
}

// ------------------------------------------------------------------ violation reporting
#[derive(Clone, Debug)]
pub struct Violation {
    pub clause: String,
    pub detail: String,
    pub signature: Vec<String>,
    pub replay: Value,
}

pub struct Report {
    pub property: String,
    pub known_hits: BTreeMap<String, (String, usize)>,
    pub violations: Vec<String>,
}
impl Report {
    pub fn new(property: &str) -> Self {
        Report { property: property.into(), known_hits: BTreeMap::new(), violations: vec![] }
    }
    /// Classify a minimised violation; writes the replay file when it is not a known finding.
    pub fn add(&mut self, kf: &KnownFindings, v: &Violation, replay_dir: &str, name: &str) {
        if let Some(k) = kf.matches(&self.property, &v.clause, &v.signature) {
            let e = self.known_hits.entry(k.id.clone()).or_insert((k.description.clone(), 0));
            e.1 += 1;
            return;
        }
        let replay_dir = &std::env::var("VERIF_REPLAY_DIR").unwrap_or_else(|_| replay_dir.to_string());
        let _ = std::fs::create_dir_all(replay_dir);
        let path = format!("{replay_dir}/{}-{name}.json", self.property);
        let mut r = v.replay.clone();
        r["property"] = json!(self.property);
        r["clause"] = json!(v.clause);
        r["detail"] = json!(v.detail);
        r["signature"] = json!(v.signature);
        std::fs::write(&path, serde_json::to_string_pretty(&r).unwrap()).unwrap_or_else(|e| harness_error(&format!("cannot write replay {path}: {e}")));
        self.violations.push(path);
    }
    /// Prints KNOWN-FINDING / VIOLATION lines; returns the process exit code.
    pub fn finish(&self) -> i32 {
        for (id, (desc, n)) in &self.known_hits {
            println!("KNOWN-FINDING: property={} {} [{}] ({} occurrence(s) this run)", self.property, desc, id, n);
        }
        for p in &self.violations {
            println!("VIOLATION property={} replay={}", self.property, p);
        }
        if self.violations.is_empty() {
            0
        } else {
            1
        }
    }
}

// ------------------------------------------------------------------ evidence
pub struct Evidence {
    pub property: String,
    pub tier: String,
    pub seed: u64,
    pub level: String,
    pub coverage: serde_json::Map<String, Value>,
    pub assumptions: Vec<String>,
    pub violations: usize,
    start: std::time::Instant,
}
impl Evidence {
    pub fn new(property: &str, tier: &str, seed: u64, level: &str) -> Self {
        Evidence { property: property.into(), tier: tier.into(), seed, level: level.into(), coverage: Default::default(), assumptions: vec![], violations: 0, start: std::time::Instant::now() }
    }
    pub fn set(&mut self, k: &str, v: Value) {
        self.coverage.insert(k.into(), v);
    }
    pub fn elapsed(&self) -> f64 {
        self.start.elapsed().as_secs_f64()
    }
    pub fn write(&self, dir: &str) {
        // a long background run can be told to write elsewhere so that it does not overwrite the evidence of the registered commands
        let dir = &std::env::var("VERIF_EVIDENCE_DIR").unwrap_or_else(|_| dir.to_string());
        let wall = self.start.elapsed().as_secs_f64();
        let mut cov = self.coverage.clone();
        cov.entry("simulated_time".to_string()).or_insert_with(|| json!("not applicable: none of the code paths under this property has a timer, deadline or sleep; progress is measured in scheduling decisions / libc-call events (the clock is only a seeded *value* source: C15 offsets, C30 fetch ids)"));
        if let Some(ev) = cov.get("evaluations").and_then(|v| v.as_u64()) {
            cov.insert("runs_per_hour".into(), json!((ev as f64 / wall.max(1e-9) * 3600.0) as u64));
        }
        let v = json!({
            "property_id": self.property, "tier": self.tier, "seed": self.seed, "level": self.level,
            "coverage": Value::Object(cov), "assumptions": self.assumptions, "wall_s": wall, "violations": self.violations,
        });
        let _ = std::fs::create_dir_all(dir);
        let path = format!("{dir}/{}.json", self.property);
        std::fs::write(&path, serde_json::to_string_pretty(&v).unwrap()).unwrap_or_else(|e| harness_error(&format!("cannot write evidence {path}: {e}")));
    }
}

// ------------------------------------------------------------------ work pool
/// Runs `f(i)` for i in 0..n on `workers` threads; results in index order. Each job is independent of
/// the worker that runs it (all randomness comes from the job's own sub-seed).
pub fn par_map<R: Send>(workers: usize, n: usize, f: impl Fn(usize) -> R + Sync) -> Vec<R> {
    let next = AtomicUsize::new(0);
    let out: Mutex<Vec<Option<R>>> = Mutex::new((0..n).map(|_| None).collect());
    std::thread::scope(|s| {
        for _ in 0..workers.max(1).min(n.max(1)) {
            s.spawn(|| loop {
                let i = next.fetch_add(1, Ordering::SeqCst);
                if i >= n {
                    break;
                }
                let r = f(i);
                out.lock().unwrap()[i] = Some(r);
            });
        }
    });
    out.into_inner().unwrap().into_iter().map(|x| x.expect("job result")).collect()
}

pub fn workers() -> usize {
    std::env::var("VERIF_WORKERS").ok().and_then(|s| s.parse().ok()).unwrap_or_else(|| std::thread::available_parallelism().map(|n| n.get()).unwrap_or(4))
}

#[cfg(test)]
mod tests {
    use super::*;
    #[test]
    fn ddmin_finds_pair() {
        let items: Vec<u32> = (0..40).collect();
        let r = ddmin(items, 10_000, |xs| xs.contains(&7) && xs.contains(&31));
        assert_eq!(r, vec![7, 31]);
    }
    #[test]
    fn rng_is_stable() {
        let mut a = Rng::new(1);
        let mut b = Rng::new(1);
        for _ in 0..100 {
            assert_eq!(a.next_u64(), b.next_u64());
        }
        assert_ne!(derive(1, "a", 0), derive(1, "a", 1));
    }
}
