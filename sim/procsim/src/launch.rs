//! Launching real processes behind the libc shim (free-run and lock-step). DESIGN.md §3.
use std::collections::BTreeMap;
use std::io::Read;
use std::os::unix::process::CommandExt;
use std::path::{Path, PathBuf};
use std::process::{Child, Command, Stdio};
use std::time::{Duration, Instant};

/// Where the shim / fake ps (`bin`) and vforc / flagdrv (`tools`) live. VERIF_FROZEN=<dir> points both at a
/// frozen copy (<dir>/bin, <dir>/tools) so that a long run is not disturbed by rebuilds of /verif/target.
pub fn bin_dir() -> String {
    std::env::var("VERIF_FROZEN").map(|d| format!("{d}/bin")).unwrap_or_else(|_| "/verif/bin".into())
}
pub fn tools_dir() -> String {
    std::env::var("VERIF_FROZEN").map(|d| format!("{d}/tools")).unwrap_or_else(|_| "/verif/target/debug".into())
}

pub fn scratch_base() -> PathBuf {
    let p = PathBuf::from(format!("/dev/shm/vsim/{}", std::process::id()));
    std::fs::create_dir_all(&p).expect("scratch base");
    p
}
pub fn cleanup_scratch() {
    let _ = std::fs::remove_dir_all(format!("/dev/shm/vsim/{}", std::process::id()));
    // best-effort removal of stale directories of dead invocations
    if let Ok(rd) = std::fs::read_dir("/dev/shm/vsim") {
        for e in rd.flatten() {
            if let Some(pid) = e.file_name().to_str().and_then(|s| s.parse::<i32>().ok()) {
                if unsafe { libc::kill(pid, 0) } != 0 {
                    let _ = std::fs::remove_dir_all(e.path());
                }
            }
        }
    }
}

/// What the shim is told for one process.
#[derive(Clone, Debug, Default)]
pub struct ShimCfg {
    pub exe_names: String,
    pub seed: Option<u64>,
    pub pid: Option<u64>,
    pub clock_ns: Option<i64>,
    pub tick_ns: Option<i64>,
    pub layout: Option<u64>,
    pub env_pad: usize,
    pub no_aslr: bool,
    pub roots: Vec<String>,
    pub gate: String,
    pub log: Option<String>,
    pub plan: Option<String>,
    pub ctl_fd: Option<i32>,
}

pub struct Spec {
    pub exe: String,
    pub args: Vec<String>,
    pub cwd: PathBuf,
    pub home: PathBuf,
    pub extra_env: BTreeMap<String, String>,
    pub shim: ShimCfg,
}

pub fn command(spec: &Spec) -> Command {
    let mut c = Command::new(&spec.exe);
    c.args(&spec.args).current_dir(&spec.cwd).env_clear();
    c.env("PATH", format!("{}:/usr/bin:/bin", bin_dir()));
    c.env("HOME", &spec.home);
    c.env("LD_PRELOAD", format!("{}/libsimshim.so", bin_dir()));
    c.env("NO_COLOR", "1");
    // process/thread creation is the bottleneck in this sandbox (~190 clones/s machine-wide): forc compiles on
    // its main thread, so one idle runtime worker instead of sixteen changes nothing it does
    c.env("TOKIO_WORKER_THREADS", "1");
    let s = &spec.shim;
    c.env("SIMSHIM_EXE", &s.exe_names);
    if let Some(v) = s.seed {
        c.env("SIMSHIM_SEED", v.to_string());
    }
    if let Some(v) = s.pid {
        c.env("SIMSHIM_PID", v.to_string());
    }
    if let Some(v) = s.clock_ns {
        c.env("SIMSHIM_CLOCK", v.to_string());
    }
    if let Some(v) = s.tick_ns {
        c.env("SIMSHIM_TICK", v.to_string());
    }
    if let Some(v) = s.layout {
        c.env("SIMSHIM_LAYOUT", v.to_string());
    }
    if s.env_pad > 0 {
        c.env("SIMSHIM_PAD", "x".repeat(s.env_pad));
    }
    if !s.roots.is_empty() {
        c.env("SIMSHIM_ROOT", s.roots.join(":"));
    }
    if !s.gate.is_empty() {
        c.env("SIMSHIM_GATE", &s.gate);
    }
    if let Some(v) = &s.log {
        c.env("SIMSHIM_LOG", v);
    }
    if let Some(v) = &s.plan {
        // "P:<errno>:<substring>" = every mutating call on a matching path fails, for the whole run
        match v.strip_prefix("P:") {
            Some(rest) => c.env("SIMSHIM_FAILPATH", rest),
            None => c.env("SIMSHIM_PLAN", v),
        };
    }
    for (k, v) in &spec.extra_env {
        c.env(k, v);
    }
    let no_aslr = s.no_aslr;
    let ctl = s.ctl_fd;
    if ctl.is_some() {
        c.env("SIMSHIM_CTL", "100");
    }
    unsafe {
        c.pre_exec(move || {
            if no_aslr {
                libc::personality(libc::ADDR_NO_RANDOMIZE as libc::c_ulong);
            }
            if let Some(fd) = ctl {
                if fd == 100 {
                    // dup2(100, 100) is a no-op and would leave FD_CLOEXEC set
                    let fl = libc::fcntl(fd, libc::F_GETFD);
                    if fl < 0 || libc::fcntl(fd, libc::F_SETFD, fl & !libc::FD_CLOEXEC) < 0 {
                        return Err(std::io::Error::last_os_error());
                    }
                } else if libc::dup2(fd, 100) < 0 {
                    return Err(std::io::Error::last_os_error());
                }
            }
            // die with the controller
            libc::prctl(libc::PR_SET_PDEATHSIG, libc::SIGKILL);
            Ok(())
        });
    }
    c
}

#[derive(Debug, Clone)]
pub struct Outcome {
    /// exit code, or None when killed by a signal
    pub code: Option<i32>,
    pub signal: Option<i32>,
    pub timed_out: bool,
    pub stdout: String,
    pub stderr: String,
}

/// Free-run: start, wait (with watchdog), collect output.
pub fn run_free(spec: &Spec, timeout: Duration) -> Outcome {
    let mut c = command(spec);
    c.stdin(Stdio::null()).stdout(Stdio::piped()).stderr(Stdio::piped());
    let mut child = c.spawn().unwrap_or_else(|e| simcore::harness_error(&format!("cannot spawn {}: {e}", spec.exe)));
    wait_collect(&mut child, timeout)
}

pub fn wait_collect(child: &mut Child, timeout: Duration) -> Outcome {
    use std::os::unix::process::ExitStatusExt;
    let mut so = child.stdout.take();
    let mut se = child.stderr.take();
    let t_out = std::thread::spawn(move || {
        let mut s = Vec::new();
        if let Some(o) = so.as_mut() {
            let _ = o.read_to_end(&mut s);
        }
        String::from_utf8_lossy(&s).to_string()
    });
    let t_err = std::thread::spawn(move || {
        let mut s = Vec::new();
        if let Some(o) = se.as_mut() {
            let _ = o.read_to_end(&mut s);
        }
        String::from_utf8_lossy(&s).to_string()
    });
    let start = Instant::now();
    let mut timed_out = false;
    let status = loop {
        match child.try_wait() {
            Ok(Some(st)) => break st,
            Ok(None) => {
                if start.elapsed() > timeout {
                    timed_out = true;
                    let _ = child.kill();
                    break child.wait().expect("wait");
                }
                std::thread::sleep(Duration::from_millis(2));
            }
            Err(e) => simcore::harness_error(&format!("wait failed: {e}")),
        }
    };
    Outcome { code: status.code(), signal: status.signal(), timed_out, stdout: t_out.join().unwrap_or_default(), stderr: t_err.join().unwrap_or_default() }
}

/// One line of a shim log.
#[derive(Clone, Debug)]
pub struct LogEvent {
    pub k: usize,
    pub cls: char,
    pub call: String,
    pub arg: String,
    pub len: usize,
}
#[derive(Clone, Debug, Default)]
pub struct ShimLog {
    pub events: Vec<LogEvent>,
    pub notes: BTreeMap<String, usize>,
    pub other_thread: usize,
}
pub fn parse_log(path: &Path) -> ShimLog {
    let mut out = ShimLog::default();
    let Ok(txt) = std::fs::read_to_string(path) else { return out };
    for line in txt.lines() {
        if let Some(n) = line.strip_prefix("N ") {
            *out.notes.entry(n.trim().to_string()).or_insert(0) += 1;
            continue;
        }
        if line.starts_with("T ") {
            out.other_thread += 1;
            continue;
        }
        let mut it = line.splitn(4, ' ');
        let (Some(k), Some(cls), Some(call), Some(rest)) = (it.next(), it.next(), it.next(), it.next()) else { continue };
        let Ok(k) = k.parse::<usize>() else { continue };
        let (arg, len) = match rest.rfind(" len=") {
            Some(i) => (rest[..i].to_string(), rest[i + 5..].parse().unwrap_or(0)),
            None => (rest.to_string(), 0),
        };
        out.events.push(LogEvent { k, cls: cls.chars().next().unwrap_or('?'), call: call.to_string(), arg, len });
    }
    out
}

pub fn write_file(p: &Path, s: &[u8]) {
    if let Some(d) = p.parent() {
        std::fs::create_dir_all(d).expect("mkdir");
    }
    std::fs::write(p, s).expect("write");
}

/// relpath -> bytes for every regular file below `dir` (symlinks reported as their target text).
pub fn read_tree(dir: &Path) -> BTreeMap<String, Vec<u8>> {
    fn walk(base: &Path, d: &Path, out: &mut BTreeMap<String, Vec<u8>>) {
        let Ok(rd) = std::fs::read_dir(d) else { return };
        for e in rd.flatten() {
            let p = e.path();
            let Ok(md) = std::fs::symlink_metadata(&p) else { continue };
            let rel = p.strip_prefix(base).unwrap().to_string_lossy().to_string();
            if md.file_type().is_symlink() {
                out.insert(rel, format!("-> {:?}", std::fs::read_link(&p).ok()).into_bytes());
            } else if md.is_dir() {
                out.insert(format!("{rel}/"), vec![]);
                walk(base, &p, out);
            } else {
                out.insert(rel, std::fs::read(&p).unwrap_or_default());
            }
        }
    }
    let mut out = BTreeMap::new();
    walk(dir, dir, &mut out);
    out
}

/// Process creation does not scale in this sandbox (fork/exec throughput is ~200/s machine-wide and
/// drops with more parallel spawners; measured optimum 2-4 workers), so engine A defaults to 3 workers.
pub fn engine_a_workers() -> usize {
    std::env::var("VERIF_WORKERS").ok().and_then(|s| s.parse().ok()).unwrap_or(3)
}
