//! C15 — builds are deterministic. DESIGN.md §4.1.
//!
//! The real `forc build` of one package is run in fresh processes whose hash keys (getrandom), pid,
//! clock offset and address-space layout are functions of the run's seed. All artifacts under `out/`
//! must be byte-identical across seeds; a build that fails under one seed and succeeds under another is
//! a violation as well.
use crate::launch::*;
use serde_json::{json, Value};
use simcore::*;
use std::collections::{BTreeMap, BTreeSet};
use std::path::{Path, PathBuf};
use std::time::Duration;

const PROP: &str = "C15";
const CORPUS: &str = "/repo/test/src/e2e_vm_tests/test_programs/should_pass";

#[derive(Clone, Debug)]
struct Pkg {
    name: String,
    /// source directory in /repo (None = generated)
    src: Option<PathBuf>,
    gen_seed: u64,
}

#[derive(Clone, Debug)]
struct Variation {
    hash_keys: u64,
    pid: u64,
    clock: i64,
    tick: i64,
    layout: u64,
    env_pad: usize,
    no_aslr: bool,
    kinds: Vec<&'static str>,
}

fn baseline_variation() -> Variation {
    Variation { hash_keys: 1, pid: 4242, clock: 1_700_000_000_000_000_000, tick: 1000, layout: 0, env_pad: 0, no_aslr: true, kinds: vec![] }
}

fn gen_variation(rng: &mut Rng, force: Option<&'static str>) -> Variation {
    let mut v = baseline_variation();
    let all = ["hash_keys", "layout", "clock_offset", "pid"];
    let mut kinds: Vec<&'static str> = match force {
        Some(k) => vec![k],
        None => all.iter().copied().filter(|_| rng.chance(1, 2)).collect(),
    };
    if kinds.is_empty() {
        kinds.push(*rng.pick(&all));
    }
    for k in &kinds {
        match *k {
            "hash_keys" => v.hash_keys = rng.next_u64() | 1,
            "layout" => {
                v.layout = 1 + rng.next_u64() % 1_000_000;
                v.env_pad = rng.below(60_000);
                v.no_aslr = rng.chance(1, 2); // the kernel's own ASLR is a legitimate layout source too
            }
            "clock_offset" => v.clock = 1_500_000_000_000_000_000 + (rng.next_u64() % 400_000_000) as i64 * 1_000_000_000,
            "pid" => v.pid = 2 + rng.next_u64() % 4_000_000,
            _ => {}
        }
    }
    v.kinds = kinds;
    v
}

/// Copy a package to scratch, rewriting relative `path = "…"` dependencies to absolute /repo paths.
fn stage(pkg: &Pkg, dst: &Path) -> Result<(), String> {
    let _ = std::fs::remove_dir_all(dst);
    match &pkg.src {
        Some(src) => {
            copy_dir(src, dst).map_err(|e| e.to_string())?;
            let _ = std::fs::remove_dir_all(dst.join("out"));
            let manifest = std::fs::read_to_string(dst.join("Forc.toml")).map_err(|e| e.to_string())?;
            let mut out = String::new();
            for line in manifest.lines() {
                out.push_str(&rewrite_path_dep(line, src));
                out.push('\n');
            }
            std::fs::write(dst.join("Forc.toml"), out).map_err(|e| e.to_string())?;
        }
        None => gen_package(pkg.gen_seed, dst),
    }
    Ok(())
}

fn rewrite_path_dep(line: &str, src: &Path) -> String {
    // path = "../x"  (inside an inline table or on its own line)
    let Some(i) = line.find("path") else { return line.to_string() };
    let rest = &line[i..];
    let Some(q1) = rest.find('"') else { return line.to_string() };
    let Some(q2) = rest[q1 + 1..].find('"') else { return line.to_string() };
    let p = &rest[q1 + 1..q1 + 1 + q2];
    if p.starts_with('/') || !rest[4..q1].trim().starts_with('=') {
        return line.to_string();
    }
    let abs = src.join(p);
    let abs = abs.canonicalize().unwrap_or(abs);
    format!("{}path = \"{}\"{}", &line[..i], abs.display(), &rest[q1 + 2 + q2..])
}

fn copy_dir(src: &Path, dst: &Path) -> std::io::Result<()> {
    std::fs::create_dir_all(dst)?;
    for e in std::fs::read_dir(src)? {
        let e = e?;
        let p = e.path();
        let d = dst.join(e.file_name());
        if p.is_dir() {
            copy_dir(&p, &d)?;
        } else {
            std::fs::copy(&p, &d)?;
        }
    }
    Ok(())
}

/// A generated contract biased toward what hash order could touch: near-duplicate functions (fn dedup),
/// many string / b256 constants (data section), configurables, namespaced storage, many ABI types.
fn gen_package(seed: u64, dst: &Path) {
    let mut rng = Rng::new(derive(seed, "c15-gen", 0));
    let n_structs = rng.range(2, 6);
    let n_fns = rng.range(4, 14);
    let n_conf = rng.range(1, 6);
    let n_store = rng.range(1, 6);
    let mut s = String::from("contract;\n\nuse std::hash::*;\nuse std::storage::storage_vec::*;\n\n");
    for i in 0..n_structs {
        s.push_str(&format!("pub struct S{i} {{\n    pub a: u64,\n    pub b: b256,\n    pub c: {},\n}}\n\n", if i == 0 { "bool".to_string() } else { format!("S{}", i - 1) }));
        s.push_str(&format!("pub enum E{i} {{\n    A: u64,\n    B: S{i},\n    C: (),\n}}\n\n"));
    }
    s.push_str("configurable {\n");
    for i in 0..n_conf {
        match rng.below(3) {
            0 => s.push_str(&format!("    C{i}: u64 = {},\n", rng.next_u64() % 100000)),
            1 => s.push_str(&format!("    C{i}: b256 = 0x{:064x},\n", rng.next_u64())),
            _ => s.push_str(&format!("    C{i}: str[{}] = __to_str_array(\"{}\"),\n", 4 + i, "abcdefghijklmnop"[..4 + i].to_string())),
        }
    }
    s.push_str("}\n\n");
    let idx_contract_only = s.len();
    s.push_str("storage {\n");
    for i in 0..n_store {
        match rng.below(3) {
            0 => s.push_str(&format!("    v{i}: u64 = {},\n", rng.next_u64() % 1000)),
            1 => s.push_str(&format!("    m{i}: StorageMap<u64, b256> = StorageMap {{}},\n")),
            _ => s.push_str(&format!("    w{i}: b256 = 0x{:064x},\n", rng.next_u64())),
        }
    }
    s.push_str(&format!("    ns{} {{\n        inner_a: u64 = 1,\n        inner_b: bool = true,\n    }},\n", rng.below(100)));
    s.push_str("}\n\nabi Gen {\n");
    for i in 0..n_fns {
        let t = i % n_structs;
        s.push_str(&format!("    #[storage(read, write)]\n    fn f{i}(x: u64, s: S{t}) -> E{t};\n"));
    }
    // ABI types whose type strings tie (two different 2-tuples, two different 2-arrays) and method names of several
    // lengths: what the ABI JSON's type numbering and the contract's method dispatch are ordered by
    s.push_str("    fn tuples(a: (u64, bool), b: (bool, u64)) -> (b256, u64);\n    fn arrays_of_two(a: [u64; 2], b: [bool; 2]) -> [b256; 2];\n");
    s.push_str("}\n\n");
    let idx_helpers = s.len();
    // near-duplicate private helpers
    let n_dups = rng.range(3, 9);
    for i in 0..n_dups {
        let k = if rng.chance(1, 2) { 7 } else { 7 + i };
        s.push_str(&format!("fn helper{i}(x: u64) -> u64 {{\n    let mut acc = x;\n    let mut j = 0;\n    while j < {k} {{\n        acc = acc * 3 + j;\n        j += 1;\n    }}\n    acc\n}}\n\n"));
    }
    // a function with demotable (b256 / string-array) constants in several different blocks
    let nb = rng.range(2, 5);
    s.push_str("fn branchy(x: u64) -> b256 {\n");
    for i in 0..nb {
        s.push_str(&format!("    if x == {i} {{\n        return 0x{:064x};\n    }}\n", rng.next_u64()));
    }
    s.push_str(&format!("    let mut i = 0;\n    let mut r: b256 = 0x{:064x};\n    while i < x {{\n        if i == 3 {{\n            r = 0x{:064x};\n        }}\n        i += 1;\n    }}\n    r\n}}\n\n", rng.next_u64(), rng.next_u64()));
    // a function with more simultaneously live values than there are registers (spills), many of equal priority,
    // some of them loop-carried
    let nl = rng.range(40, 56);
    s.push_str("fn heavy(x: u64) -> u64 {\n");
    for i in 0..nl {
        s.push_str(&format!("    let mut a{i} = x + {};\n", i + 1));
    }
    s.push_str("    let mut k = 0;\n    while k < x {\n");
    for i in 0..nl {
        s.push_str(&format!("        a{i} = a{i} + a{};\n", (i + 7) % nl));
    }
    // (one long `a0 + a1 + …` expression makes the type checker take minutes: accumulate by statements)
    s.push_str("        k += 1;\n    }\n    let mut acc = 0;\n");
    for i in 0..nl {
        s.push_str(&format!("    acc = acc + a{i};\n"));
    }
    s.push_str("    acc\n}\n\n");
    let idx_impl = s.len();
    s.push_str("impl Gen for Contract {\n");
    for i in 0..n_fns {
        let t = i % n_structs;
        let h = i % n_dups;
        let lit = format!("0x{:064x}", rng.next_u64());
        s.push_str(&format!(
            "    #[storage(read, write)]\n    fn f{i}(x: u64, s: S{t}) -> E{t} {{\n        let y = helper{h}(x) + s.a + heavy(x);\n        let k: b256 = if x > 9 {{ branchy(x) }} else {{ {lit} }};\n        log(\"fn{i}-{}\");\n        if y > {} && k == s.b {{\n            E{t}::A(y)\n        }} else if y == 3 {{\n            E{t}::C\n        }} else {{\n            E{t}::B(s)\n        }}\n    }}\n",
            rng.below(5),
            rng.next_u64() % 1000
        ));
    }
    s.push_str("    fn tuples(a: (u64, bool), b: (bool, u64)) -> (b256, u64) {\n        (branchy(a.0), if b.0 { b.1 } else { a.0 })\n    }\n    fn arrays_of_two(a: [u64; 2], b: [bool; 2]) -> [b256; 2] {\n        [branchy(a[0]), branchy(if b[1] { a[1] } else { 0 })]\n    }\n");
    s.push_str("}\n");
    // two in five generated packages are a script or a predicate instead (script hash / predicate root are derived
    // from the bytecode): same types, configurables and helpers, no storage / ABI, a `main` that uses the helpers
    let kind = rng.below(5);
    if kind >= 3 {
        let lit = format!("0x{:064x}", rng.next_u64());
        let body = format!("    let y = helper0(x) + heavy(x);\n    let k: b256 = if x > 9 {{ branchy(x) }} else {{ {lit} }};\n");
        let main = if kind == 3 {
            format!("fn main(x: u64) -> u64 {{\n{body}    if k == {lit} {{ y }} else {{ y + 1 }}\n}}\n")
        } else {
            format!("fn main(x: u64) -> bool {{\n{body}    k == {lit} && y > 7\n}}\n")
        };
        let head = s[..idx_contract_only].replacen("contract;", if kind == 3 { "script;" } else { "predicate;" }, 1).replace("use std::storage::storage_vec::*;\n", "");
        s = format!("{head}{}{main}", &s[idx_helpers..idx_impl]);
    }
    write_file(&dst.join("src/main.sw"), s.as_bytes());
    write_file(
        &dst.join("Forc.toml"),
        b"[project]\nauthors = [\"sim\"]\nentry = \"main.sw\"\nlicense = \"Apache-2.0\"\nname = \"gen\"\n\n[dependencies]\nstd = { path = \"/repo/sway-lib-std\" }\n",
    );
}

struct BuildOut {
    ok: bool,
    artifacts: BTreeMap<String, Vec<u8>>,
    stderr_tail: String,
    notes: BTreeMap<String, usize>,
    other_thread_fs_calls: usize,
}

fn build(pkg: &Pkg, release: bool, v: &Variation, slot: &Path) -> BuildOut {
    let dir = slot.join("pkg");
    let home = slot.join("home");
    let _ = std::fs::remove_dir_all(slot);
    std::fs::create_dir_all(&home).unwrap();
    if let Err(e) = stage(pkg, &dir) {
        return BuildOut { ok: false, artifacts: BTreeMap::new(), stderr_tail: format!("staging failed: {e}"), notes: BTreeMap::new(), other_thread_fs_calls: 0 };
    }
    let log = slot.join("log");
    let mut args = vec!["build".to_string()];
    if release {
        args.push("--release".into());
    }
    let spec = Spec {
        exe: format!("{}/vforc", tools_dir()),
        args,
        cwd: dir.clone(),
        home,
        extra_env: BTreeMap::new(),
        shim: ShimCfg {
            exe_names: "vforc".into(),
            seed: Some(v.hash_keys),
            pid: Some(v.pid),
            clock_ns: Some(v.clock),
            tick_ns: Some(v.tick),
            layout: if v.layout > 0 { Some(v.layout) } else { None },
            env_pad: v.env_pad,
            no_aslr: v.no_aslr,
            roots: vec![dir.display().to_string()],
            gate: "M".into(),
            log: Some(log.display().to_string()),
            ..Default::default()
        },
    };
    let o = run_free(&spec, Duration::from_secs(600));
    let sl = parse_log(&log);
    let mut artifacts = BTreeMap::new();
    let outdir = dir.join("out");
    for (rel, bytes) in read_tree(&outdir) {
        if !rel.ends_with('/') {
            artifacts.insert(rel, bytes);
        }
    }
    if std::env::var("C15_KEEP").is_ok() && o.code != Some(0) {
        let _ = std::fs::write("/tmp/c15-fail.txt", format!("{}\n{}", o.stdout, o.stderr));
        let _ = std::fs::copy(dir.join("src/main.sw"), "/tmp/c15-fail-main.sw");
    }
    let _ = std::fs::remove_dir_all(slot);
    BuildOut { ok: o.code == Some(0) && !o.timed_out, artifacts, stderr_tail: crate::c30::strip_ansi(&o.stderr).lines().rev().take(3).collect::<Vec<_>>().join(" | "), notes: sl.notes, other_thread_fs_calls: sl.other_thread }
}

/// The artifacts the property names: bytecode, JSON ABI, storage slots JSON, and the ids/roots derived from
/// them. `debug_symbols.obj` is not among them (observed to depend on the hash keys; reported as an
/// observation in the evidence, never as a violation).
fn judged(name: &str) -> bool {
    name.ends_with(".bin") || name.ends_with("-abi.json") || name.ends_with("-storage_slots.json") || name.ends_with("-bin-hash") || name.ends_with("-bin-root")
}

fn first_diff(a: &BTreeMap<String, Vec<u8>>, b: &BTreeMap<String, Vec<u8>>) -> Option<String> {
    let a: BTreeMap<&String, &Vec<u8>> = a.iter().filter(|(k, _)| judged(k)).collect();
    let b: BTreeMap<&String, &Vec<u8>> = b.iter().filter(|(k, _)| judged(k)).collect();
    for (k, va) in &a {
        match b.get(k) {
            None => return Some(format!("{k} missing in the second build")),
            Some(vb) if va != vb => {
                let off = va.iter().zip(vb.iter()).position(|(x, y)| x != y).unwrap_or(va.len().min(vb.len()));
                return Some(format!("{k} differs at byte offset {off} (sizes {} / {})", va.len(), vb.len()));
            }
            _ => {}
        }
    }
    for k in b.keys() {
        if !a.contains_key(*k) {
            return Some(format!("{k} only in the second build"));
        }
    }
    None
}

fn corpus_packages(limit: usize, rng: &mut Rng) -> Vec<Pkg> {
    // fixed, diverse head of the list + a seeded sample of the rest
    let head = ["language/configurable_consts", "language/storage_slot_sized", "language/fn_dedup_debug", "stdlib/vec", "stdlib/storage_vec_insert", "language/array_generics"];
    let mut out: Vec<Pkg> = vec![];
    let mut seen = BTreeSet::new();
    for h in head {
        let p = PathBuf::from(CORPUS).join(h);
        if p.join("Forc.toml").exists() && seen.insert(p.clone()) {
            out.push(Pkg { name: h.to_string(), src: Some(p), gen_seed: 0 });
        }
    }
    for ex in ["storage_map", "counter", "liquidity_pool", "wallet_smart_contract", "storage_namespace", "hashing", "enums", "configurable_constants"] {
        let p = PathBuf::from("/repo/examples").join(ex);
        if p.join("Forc.toml").exists() && seen.insert(p.clone()) {
            out.push(Pkg { name: format!("examples/{ex}"), src: Some(p), gen_seed: 0 });
        }
    }
    if out.len() < limit {
        let mut all = vec![];
        fn walk(d: &Path, out: &mut Vec<PathBuf>, depth: usize) {
            if depth > 6 {
                return;
            }
            if d.join("Forc.toml").exists() && d.join("src").is_dir() {
                // the reduced std libs are materialised by the e2e harness at test time and do not build from
                // the tree as it is; git/registry dependencies need the network
                let m = std::fs::read_to_string(d.join("Forc.toml")).unwrap_or_default();
                if !m.contains("reduced_std_libs") && !m.contains("git =") && !m.contains("version =") && m.contains("[project]") {
                    out.push(d.to_path_buf());
                }
                return;
            }
            if let Ok(rd) = std::fs::read_dir(d) {
                let mut es: Vec<_> = rd.flatten().map(|e| e.path()).filter(|p| p.is_dir()).collect();
                es.sort();
                for e in es {
                    walk(&e, out, depth + 1);
                }
            }
        }
        walk(Path::new(CORPUS), &mut all, 0);
        while out.len() < limit && !all.is_empty() {
            let i = rng.below(all.len());
            let p = all.swap_remove(i);
            if seen.insert(p.clone()) {
                out.push(Pkg { name: p.strip_prefix(CORPUS).unwrap().display().to_string(), src: Some(p), gen_seed: 0 });
            }
        }
    }
    out.truncate(limit);
    out
}

pub fn main(cli: &Cli) -> i32 {
    let base = scratch_base().join("c15");
    if let Some(p) = &cli.replay {
        return replay(p, &base);
    }
    let mut ev = Evidence::new(PROP, &cli.tier, cli.seed, "exploration");
    let kf = KnownFindings::load("/verif/known_findings.json");
    let workers = simcore::workers();
    let n_corpus = cli.get_usize("corpus", if cli.thorough() { 160 } else { 14 });
    let n_gen = cli.get_usize("generated", if cli.thorough() { 60 } else { 4 });
    let k_seeds = cli.get_usize("seeds", if cli.thorough() { 6 } else { 3 });
    let mut rng = Rng::stream(cli.seed, "c15-plan");
    let mut pkgs = corpus_packages(n_corpus, &mut rng);
    for g in 0..n_gen {
        pkgs.push(Pkg { name: format!("generated-{g}"), src: None, gen_seed: derive(cli.seed, "c15-genpkg", g as u64) });
    }
    // job list: (pkg, release?, variation index); variation 0 is the baseline environment
    struct Job {
        pkg: usize,
        release: bool,
        var: Variation,
        vi: usize,
    }
    let mut jobs = vec![];
    for (pi, _) in pkgs.iter().enumerate() {
        for release in [false, true] {
            for vi in 0..=k_seeds {
                let var = if vi == 0 {
                    baseline_variation()
                } else {
                    let mut r = Rng::new(derive(cli.seed, "c15-var", (pi * 1000 + vi * 2 + release as usize) as u64));
                    // the first varied run always changes the hash keys (the source the property names); the others swarm
                    gen_variation(&mut r, if vi == 1 { Some("hash_keys") } else { None })
                };
                jobs.push(Job { pkg: pi, release, var, vi });
            }
        }
    }
    let outs = par_map(workers, jobs.len(), |j| build(&pkgs[jobs[j].pkg], jobs[j].release, &jobs[j].var, &base.join(format!("j{j}"))));
    let mut report = Report::new(PROP);
    let mut compared = 0usize;
    let mut built_ok = 0usize;
    let mut skipped: Vec<String> = vec![];
    let mut kinds_count: BTreeMap<String, usize> = BTreeMap::new();
    let mut distinct_envs: BTreeSet<String> = BTreeSet::new();
    let mut randomstate_inits = 0usize;
    let mut threads_created = 0usize;
    let mut other_thread_fs = 0usize;
    let mut samples = vec![];
    let mut artifact_bytes = 0usize;
    let mut pkgs_compared: BTreeSet<usize> = BTreeSet::new();
    let mut unjudged_diffs: BTreeMap<String, usize> = BTreeMap::new();
    // group by (pkg, release)
    let mut groups: BTreeMap<(usize, bool), Vec<usize>> = BTreeMap::new();
    for (j, job) in jobs.iter().enumerate() {
        groups.entry((job.pkg, job.release)).or_default().push(j);
    }
    for ((pi, release), js) in &groups {
        let base_j = js[0];
        let b = &outs[base_j];
        let any_ok = js.iter().any(|&j| outs[j].ok);
        if !any_ok {
            if !*release {
                skipped.push(format!("{} ({})", pkgs[*pi].name, b.stderr_tail.chars().take(100).collect::<String>()));
            }
            continue;
        }
        for &j in js {
            let o = &outs[j];
            randomstate_inits += o.notes.get("getrandom").copied().unwrap_or(0) + o.notes.get("getentropy").copied().unwrap_or(0) + o.notes.get("urandom-read").copied().unwrap_or(0);
            threads_created += o.notes.get("pthread_create").copied().unwrap_or(0);
            other_thread_fs += o.other_thread_fs_calls;
            if o.ok {
                built_ok += 1;
                artifact_bytes += o.artifacts.values().map(|v| v.len()).sum::<usize>();
            }
            if j == base_j {
                continue;
            }
            compared += 1;
            pkgs_compared.insert(*pi);
            for k in &jobs[j].var.kinds {
                *kinds_count.entry(k.to_string()).or_insert(0) += 1;
            }
            distinct_envs.insert(format!("{:?}", (jobs[j].var.hash_keys, jobs[j].var.pid, jobs[j].var.clock, jobs[j].var.layout, jobs[j].var.env_pad, jobs[j].var.no_aslr)));
            let problem = if o.ok != b.ok {
                Some(format!("build {} under the baseline environment but {} under variation {:?}: {}", if b.ok { "succeeds" } else { "fails" }, if o.ok { "succeeds" } else { "fails" }, jobs[j].var.kinds, if o.ok { &b.stderr_tail } else { &o.stderr_tail }))
            } else if o.ok {
                first_diff(&b.artifacts, &o.artifacts)
            } else {
                None
            };
            if o.ok && b.ok {
                for (k, va) in &b.artifacts {
                    if !judged(k) && o.artifacts.get(k).map(|vb| vb != va).unwrap_or(true) {
                        *unjudged_diffs.entry(k.rsplit('/').next().unwrap_or(k).to_string()).or_insert(0) += 1;
                    }
                }
            }
            if samples.len() < 4 && jobs[j].vi == 1 {
                samples.push(json!({"package": pkgs[*pi].name, "profile": if *release { "release" } else { "debug" }, "varied": jobs[j].var.kinds, "artifacts": o.artifacts.iter().map(|(k, v)| json!([k, v.len(), format!("{:016x}", fnv64(v))])).collect::<Vec<_>>(), "identical_to_baseline": problem.is_none()}));
            }
            if let Some(detail) = problem {
                ev.violations += 1;
                // attribute: re-run with one variation kind at a time
                let mut culprit = vec![];
                for k in jobs[j].var.kinds.clone() {
                    let mut single = baseline_variation();
                    match k {
                        "hash_keys" => single.hash_keys = jobs[j].var.hash_keys,
                        "pid" => single.pid = jobs[j].var.pid,
                        "clock_offset" => single.clock = jobs[j].var.clock,
                        _ => {
                            single.layout = jobs[j].var.layout;
                            single.env_pad = jobs[j].var.env_pad;
                            single.no_aslr = jobs[j].var.no_aslr;
                        }
                    }
                    single.kinds = vec![k];
                    let o2 = build(&pkgs[*pi], *release, &single, &base.join(format!("attr{j}")));
                    if o2.ok != b.ok || first_diff(&b.artifacts, &o2.artifacts).is_some() {
                        culprit.push(k.to_string());
                    }
                }
                let v = Violation {
                    clause: "D".into(),
                    detail: detail.clone(),
                    signature: if culprit.is_empty() { jobs[j].var.kinds.iter().map(|s| s.to_string()).collect() } else { culprit.clone() },
                    replay: json!({"package": pkgs[*pi].name, "package_src": pkgs[*pi].src, "gen_seed": pkgs[*pi].gen_seed, "release": release,
                        "variation": {"hash_keys": jobs[j].var.hash_keys, "pid": jobs[j].var.pid, "clock": jobs[j].var.clock, "tick": jobs[j].var.tick, "layout": jobs[j].var.layout, "env_pad": jobs[j].var.env_pad, "no_aslr": jobs[j].var.no_aslr},
                        "sources_that_reproduce_it_alone": culprit}),
                };
                report.add(&kf, &v, "/verif/replays", &format!("{}-{}-{}", cli.seed, pi, j));
            }
        }
    }
    // non-gating exploratory mode: coarse clock (DESIGN §4.1 "clock granularity")
    let mut coarse = vec![];
    for (pi, p) in pkgs.iter().enumerate().take(if cli.thorough() { 6 } else { 2 }) {
        let mut v = baseline_variation();
        v.tick = 16_000_000;
        let o = build(p, false, &v, &base.join(format!("coarse{pi}")));
        if let Some(&bj) = groups.get(&(pi, false)).and_then(|g| g.first()) {
            if outs[bj].ok {
                coarse.push(json!({"package": p.name, "tick_ns": v.tick, "build_ok": o.ok, "artifacts_changed": !o.ok || first_diff(&outs[bj].artifacts, &o.artifacts).is_some()}));
            }
        }
    }
    ev.set("evaluations", json!(built_ok));
    ev.set("distinct_nontrivial", json!(distinct_envs.len()));
    ev.set("rule", json!("one evaluation = one successful real `forc build` in a fresh process under a seeded environment (hash keys via getrandom, pid, clock offset, address-space layout: ASLR off/on + env padding + brk/mmap displacement); per (package, profile) the artifacts of every varied build are compared bytewise with the baseline build; distinct+non-trivial = distinct varied environments whose build was compared"));
    ev.set("builds_compared_with_baseline", json!(compared));
    ev.set("packages_compared", json!(pkgs_compared.len()));
    ev.set("packages_skipped_because_they_do_not_build_offline", json!(skipped));
    ev.set("variation_kinds_applied", json!(kinds_count));
    ev.set("artifact_bytes_compared", json!(artifact_bytes));
    ev.set("entropy_reads_intercepted", json!(randomstate_inits));
    ev.set("tripwires", json!({"pthread_create_calls": threads_created, "file_system_calls_from_other_threads": other_thread_fs, "note": "threads are the tokio runtime's (TOKIO_WORKER_THREADS=1) — forc compiles on the main thread; a non-zero second number would mean build work moved off the main thread"}));
    ev.set("coarse_clock_exploration_non_gating", json!(coarse));
    ev.set("observation_files_outside_the_property_that_differed", json!(unjudged_diffs));
    ev.set("samples", json!(samples));
    ev.set("components", json!({"real": ["forc build (forc-pkg, sway-core, sway-ir, asm generation)", "glibc", "kernel"], "stub": ["entropy/pid/clock values and memory layout (seeded by the shim and launcher)", "3-line main() of forc (vforc)"]}));
    ev.set("known_findings_seen", json!(report.known_hits.keys().collect::<Vec<_>>()));
    ev.assumptions = vec!["every entropy source of the build path is reachable at the libc seam (getrandom, getentropy, /dev/urandom); glibc's own 8-byte malloc cookie read is not".into(), "thread timing is not varied because the build path has no threads (tripwire reported)".into()];
    ev.write("/verif/evidence");
    cleanup_scratch();
    report.finish()
}

fn replay(path: &str, base: &Path) -> i32 {
    let txt = std::fs::read_to_string(path).unwrap_or_else(|e| harness_error(&format!("cannot read replay {path}: {e}")));
    let v: Value = serde_json::from_str(&txt).unwrap_or_else(|e| harness_error(&format!("bad replay json: {e}")));
    let pkg = Pkg { name: v["package"].as_str().unwrap_or("").into(), src: v["package_src"].as_str().map(PathBuf::from), gen_seed: v["gen_seed"].as_u64().unwrap_or(0) };
    let release = v["release"].as_bool().unwrap_or(false);
    let vv = &v["variation"];
    let var = Variation { hash_keys: vv["hash_keys"].as_u64().unwrap_or(1), pid: vv["pid"].as_u64().unwrap_or(4242), clock: vv["clock"].as_i64().unwrap_or(0), tick: vv["tick"].as_i64().unwrap_or(1000), layout: vv["layout"].as_u64().unwrap_or(0), env_pad: vv["env_pad"].as_u64().unwrap_or(0) as usize, no_aslr: vv["no_aslr"].as_bool().unwrap_or(true), kinds: vec![] };
    let a = build(&pkg, release, &baseline_variation(), &base.join("ra"));
    let b = build(&pkg, release, &var, &base.join("rb"));
    cleanup_scratch();
    let problem = if a.ok != b.ok { Some(format!("baseline ok={} varied ok={}", a.ok, b.ok)) } else { first_diff(&a.artifacts, &b.artifacts) };
    match problem {
        Some(d) => {
            println!("reproduced: {d}");
            println!("VIOLATION property={PROP} replay={path}");
            1
        }
        None => {
            println!("replay did not reproduce (artifacts identical)");
            0
        }
    }
}
