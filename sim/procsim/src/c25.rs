//! C25 — dirty-file flags are never lost between processes. DESIGN.md §4.2.
//!
//! 2–3 real processes (`flagdrv`, linked against the real forc_util::fs_locking and sway_lsp
//! PidLockedFiles) run in lock-step over one `$HOME/.forc/.lsp-locks`: the controller grants exactly
//! one pending libc call at a time, chosen by a seeded scheduler, and may SIGKILL a process at any
//! scheduling point. Oracles V (visibility) and Q (quiescence) judge the recorded history.
use crate::launch::*;
use serde_json::{json, Value};
use simcore::*;
use std::collections::{BTreeMap, BTreeSet};
use std::os::fd::RawFd;
use std::path::{Path, PathBuf};
use std::process::{Child, Stdio};

const PROP: &str = "C25";
const STEP_CAP: usize = 4000;

#[derive(Clone, Debug, PartialEq)]
pub struct Workload {
    /// one script per process, ops as "mark:f1"
    pub scripts: Vec<Vec<String>>,
    /// lock files present before the run: (file, content) — e.g. the flag of a dead process ("999"),
    /// a legacy empty flag, or garbage
    pub initial: Vec<(String, String)>,
}

/// Name of the flag file of /ws/<f>.sw (mirrors forc_util::hash_path: DefaultHasher of the path + stem).
pub fn lock_file_name(f: &str) -> String {
    use std::hash::{Hash, Hasher};
    let path = std::path::PathBuf::from(format!("/ws/{f}.sw"));
    let mut h = std::collections::hash_map::DefaultHasher::default();
    path.hash(&mut h);
    format!("{:X}-{f}.lock", h.finish())
}

#[derive(Clone, Debug, PartialEq)]
pub struct Decision {
    pub proc: usize,
    pub kill: bool,
    /// errno injected into this call (only ever EAGAIN on the spawn of `ps`); 0 = none
    pub fail: i32,
}

#[derive(Clone, Debug)]
pub struct Step {
    pub seq: usize,
    pub proc: usize,
    pub kill: bool,
    pub fail: i32,
    pub req: String, // "k cls call arg len=…" with the scratch dir replaced by $H
}

#[derive(Clone, Debug, Default)]
pub struct RunResult {
    pub steps: Vec<Step>,
    pub decisions: Vec<Decision>,
    pub observer: BTreeMap<String, Vec<String>>, // file -> [first answer, second answer]
    pub alive: Vec<bool>,
    pub exit_codes: Vec<Option<i32>>,
    pub step_cap_hit: bool,
    pub infeasible: bool,
    pub had_initial: bool,
}

struct Proc {
    child: Child,
    sock: RawFd,
    pending: Option<String>,
    alive: bool,
    parked_done: bool,
    exited: bool,
    faulted: bool,
}

fn recv_req(sock: RawFd) -> Option<String> {
    let mut buf = [0u8; 800];
    loop {
        let n = unsafe { libc::recv(sock, buf.as_mut_ptr() as *mut _, buf.len(), 0) };
        if n < 0 {
            let e = std::io::Error::last_os_error();
            if e.kind() == std::io::ErrorKind::Interrupted {
                continue;
            }
            if e.kind() == std::io::ErrorKind::WouldBlock {
                harness_error("C25: a process made no progress for 60 s (watchdog)");
            }
            return None;
        }
        if n == 0 {
            return None;
        }
        return Some(String::from_utf8_lossy(&buf[..n as usize]).to_string());
    }
}

/// After a process was let past its `open` of the guard file while another process holds the guard: does it
/// really block in flock(2)? Decided by observation, not assumed — either its next request arrives (the guard
/// did not stop it: the code under test does not hold the lock it thinks it holds) or the kernel reports it
/// inside syscall 73 (flock).
fn blocks_in_flock(p: &mut Proc) -> bool {
    let pid = p.child.id();
    for _ in 0..30_000 {
        let mut pfd = libc::pollfd { fd: p.sock, events: libc::POLLIN, revents: 0 };
        let n = unsafe { libc::poll(&mut pfd, 1, 2) };
        if n > 0 {
            return false;
        }
        if let Ok(s) = std::fs::read_to_string(format!("/proc/{pid}/syscall")) {
            if s.starts_with("73 ") {
                return true;
            }
        }
    }
    harness_error("C25: a process neither blocked in flock nor sent its next request within 60 s")
}

pub enum Sched<'a> {
    /// seeded policy
    Seeded { rng: Rng, policy: Policy, kills: Vec<KillPlan> },
    /// forced decisions; `tolerant`: skip infeasible ones and finish with the default policy
    Forced { list: &'a [Decision], pos: usize, tolerant: bool },
}

#[derive(Clone, Debug)]
pub enum Policy {
    Uniform,
    Sticky(u64),
    /// stay with the current process until it has been granted a call containing this text, then
    /// switch to another process and run that one until it blocks
    SwitchAfter(String),
    Pct { prio: Vec<u64>, change_at: Vec<usize> },
}

#[derive(Clone, Debug)]
pub struct KillPlan {
    /// true: do not kill, make the matching `spawn ps` fail with EAGAIN instead
    pub spawn_fail: bool,
    pub victim: usize,
    /// kill when the victim's pending request contains this text (empty = any) …
    pub at_call: String,
    /// … and it is at least the n-th matching one
    pub nth: usize,
    pub seen: usize,
    pub done: bool,
}

pub fn run_once(w: &Workload, slot: &Path, mut sched: Sched) -> RunResult {
    let _ = std::fs::remove_dir_all(slot);
    if slot.exists() {
        harness_error(&format!("C25: scratch slot {} could not be emptied", slot.display()));
    }
    let home = slot.join("h");
    std::fs::create_dir_all(&home).unwrap();
    for (f, content) in &w.initial {
        write_file(&home.join(".forc/.lsp-locks").join(lock_file_name(f)), content.as_bytes());
    }
    let live = slot.join("live");
    let slot_s = slot.display().to_string();
    let mut procs: Vec<Proc> = vec![];
    let write_live = |procs: &Vec<Proc>| {
        let mut s = String::new();
        for (i, p) in procs.iter().enumerate() {
            if p.alive {
                s.push_str(&format!("{}\n", 1001 + i));
            }
        }
        std::fs::write(&live, s).unwrap();
    };
    for (i, script) in w.scripts.iter().enumerate() {
        let mut fds = [0i32; 2];
        if unsafe { libc::socketpair(libc::AF_UNIX, libc::SOCK_SEQPACKET | libc::SOCK_CLOEXEC, 0, fds.as_mut_ptr()) } != 0 {
            harness_error("socketpair failed");
        }
        let tv = libc::timeval { tv_sec: 60, tv_usec: 0 };
        unsafe { libc::setsockopt(fds[0], libc::SOL_SOCKET, libc::SO_RCVTIMEO, &tv as *const _ as *const _, std::mem::size_of::<libc::timeval>() as u32) };
        let mut extra = BTreeMap::new();
        extra.insert("SIM_LIVE".to_string(), live.display().to_string());
        let spec = Spec {
            exe: format!("{}/flagdrv", tools_dir()),
            args: vec![script.join(",")],
            cwd: slot.to_path_buf(),
            home: home.clone(),
            extra_env: extra,
            shim: ShimCfg { exe_names: "flagdrv".into(), seed: Some(7), pid: Some(1001 + i as u64), roots: vec![home.display().to_string()], gate: "MR".into(), ctl_fd: Some(fds[1]), ..Default::default() },
        };
        let mut c = command(&spec);
        c.stdin(Stdio::null()).stdout(Stdio::null()).stderr(Stdio::null());
        let child = c.spawn().unwrap_or_else(|e| harness_error(&format!("cannot spawn flagdrv: {e}")));
        unsafe { libc::close(fds[1]) };
        procs.push(Proc { child, sock: fds[0], pending: None, alive: true, parked_done: false, exited: false, faulted: false });
    }
    write_live(&procs);
    let fetch = |p: &mut Proc| {
        match recv_req(p.sock) {
            Some(r) => {
                if r.contains(" mark done") {
                    p.parked_done = true;
                }
                p.pending = Some(r);
            }
            None => {
                p.pending = None;
                p.exited = true;
            }
        }
    };
    for p in procs.iter_mut() {
        fetch(p);
    }
    let mut res = RunResult::default();
    res.had_initial = !w.initial.is_empty();
    // The repaired code serializes removals and publications with an advisory lock (flock, invisible at the libc
    // seam) on `.lsp-locks/.guard`. Opening and closing that file *are* events, so the controller tracks who holds
    // the guard: a process that opens it while another one holds it will block in the kernel, so no request is
    // awaited from it until the holder's close has been granted (at most one waiter at a time: a second process
    // about to open the guard is simply not enabled, which models its arriving later).
    let is_guard_open = |r: &str| r.contains(" open ") && r.contains("/.guard");
    let is_guard_close = |r: &str| r.contains(" close ") && r.contains("/.guard");
    let mut guard_holder: Option<usize> = None;
    let mut guard_waiter: Option<usize> = None;
    let mut current: Option<usize> = None;
    let mut burst_target: Option<usize> = None;
    loop {
        let enabled: Vec<usize> = procs
            .iter()
            .enumerate()
            .filter(|(_, p)| p.alive && !p.exited && !p.parked_done && p.pending.is_some())
            .filter(|(i, p)| !(is_guard_open(p.pending.as_deref().unwrap_or("")) && guard_holder.is_some() && guard_holder != Some(*i) && guard_waiter.is_some()))
            .map(|(i, _)| i)
            .collect();
        if enabled.is_empty() {
            break;
        }
        if res.steps.len() >= STEP_CAP {
            res.step_cap_hit = true;
            break;
        }
        let default_choice = |cur: Option<usize>| -> usize {
            match cur {
                Some(c) if enabled.contains(&c) => c,
                _ => enabled[0],
            }
        };
        let (pi, kill, fail) = match &mut sched {
            Sched::Forced { list, pos, tolerant } => {
                let mut out = None;
                while *pos < list.len() {
                    let d = &list[*pos];
                    *pos += 1;
                    if enabled.contains(&d.proc) {
                        out = Some((d.proc, d.kill, d.fail));
                        break;
                    } else if !*tolerant {
                        res.infeasible = true;
                        break;
                    }
                }
                if res.infeasible {
                    break;
                }
                match out {
                    Some(x) => x,
                    None => {
                        if *tolerant {
                            (default_choice(current), false, 0)
                        } else {
                            break; // strict list exhausted: stop here (the recorded run ended here too)
                        }
                    }
                }
            }
            Sched::Seeded { rng, policy, kills } => {
                let pi = match policy {
                    Policy::Uniform => enabled[rng.below(enabled.len())],
                    Policy::Sticky(p) => match current {
                        Some(c) if enabled.contains(&c) && rng.chance(*p, 100) => c,
                        _ => enabled[rng.below(enabled.len())],
                    },
                    Policy::SwitchAfter(_) => {
                        if let Some(t) = burst_target {
                            if enabled.contains(&t) {
                                t
                            } else {
                                burst_target = None;
                                enabled[rng.below(enabled.len())]
                            }
                        } else {
                            match current {
                                Some(c) if enabled.contains(&c) => c,
                                _ => enabled[rng.below(enabled.len())],
                            }
                        }
                    }
                    Policy::Pct { prio, change_at } => {
                        let step = res.steps.len();
                        if change_at.contains(&step) {
                            if let Some(c) = current {
                                prio[c] = rng.next_u64() % 1000; // demote / reshuffle the running process
                            }
                        }
                        *enabled.iter().max_by_key(|&&i| prio[i]).unwrap()
                    }
                };
                let req = procs[pi].pending.as_deref().unwrap_or("");
                let mut kill = false;
                let mut fail = 0;
                for k in kills.iter_mut() {
                    if !k.done && k.victim == pi && (k.at_call.is_empty() || req.contains(&k.at_call)) && !req.contains(" mark ") {
                        k.seen += 1;
                        if k.seen >= k.nth {
                            k.done = true;
                            if k.spawn_fail {
                                fail = libc::EAGAIN;
                            } else {
                                kill = true;
                            }
                        }
                    }
                }
                (pi, kill, fail)
            }
        };
        let req = procs[pi].pending.take().unwrap();
        // an errno can only be injected into the spawn of the liveness helper
        let fail = if req.contains(" spawn ps") { fail } else { 0 };
        res.steps.push(Step { seq: res.steps.len(), proc: pi, kill, fail, req: req.replace(&slot_s, "$H") });
        res.decisions.push(Decision { proc: pi, kill, fail });
        // burst policy bookkeeping
        if let Sched::Seeded { rng, policy: Policy::SwitchAfter(text), .. } = &mut sched {
            if burst_target.is_none() && req.contains(text.as_str()) {
                let others: Vec<usize> = enabled.iter().copied().filter(|&i| i != pi).collect();
                if !others.is_empty() {
                    burst_target = Some(others[rng.below(others.len())]);
                }
            } else if burst_target == Some(pi) && req.contains(" mark end") {
                // the burst process finished one whole operation: hand control back
                burst_target = None;
            }
        }
        current = Some(pi);
        let p = &mut procs[pi];
        let msg: Vec<u8> = if kill { b"K".to_vec() } else if fail != 0 { format!("F {fail}").into_bytes() } else { b"G".to_vec() };
        if fail != 0 {
            p.faulted = true;
        }
        unsafe { libc::send(p.sock, msg.as_ptr() as *const _, msg.len(), libc::MSG_NOSIGNAL) };
        let opens_guard = is_guard_open(&req);
        let closes_guard = is_guard_close(&req);
        if kill {
            let _ = p.child.wait();
            p.alive = false;
            p.exited = true;
            write_live(&procs);
        } else if opens_guard && guard_holder.is_some() && guard_holder != Some(pi) && blocks_in_flock(p) {
            // it blocks in flock() now: nothing to wait for until the holder lets go
            guard_waiter = Some(pi);
        } else {
            fetch(p);
            if opens_guard && !p.exited {
                guard_holder = Some(pi);
            }
            // a process that terminates by itself after an injected failure has crashed (the unchanged code
            // panics when `ps` cannot be spawned): from here on it is a dead process, not a misbehaving one
            if p.exited && p.faulted && p.alive {
                let _ = p.child.wait();
                p.alive = false;
                write_live(&procs);
            }
        }
        // the guard is free again when its holder closed it, was killed, or exited: the waiter (if any) acquires it
        let holder_gone = guard_holder == Some(pi) && (closes_guard || kill || procs[pi].exited);
        if holder_gone {
            guard_holder = None;
            if let Some(wt) = guard_waiter.take() {
                fetch(&mut procs[wt]);
                if !procs[wt].exited {
                    guard_holder = Some(wt);
                }
            }
        }
    }
    // quiescence: fresh observer, unscheduled; holders stay parked (alive) meanwhile
    if !res.infeasible {
        let mut files: BTreeSet<String> = BTreeSet::new();
        for s in &w.scripts {
            for op in s {
                if let Some((_, f)) = op.split_once(':') {
                    if f != "-" {
                        files.insert(f.to_string());
                    }
                }
            }
        }
        let script: Vec<String> = files.iter().flat_map(|f| vec![format!("check:{f}"), format!("check:{f}")]).collect();
        let mut extra = BTreeMap::new();
        extra.insert("SIM_LIVE".to_string(), live.display().to_string());
        let spec = Spec {
            exe: format!("{}/flagdrv", tools_dir()),
            args: vec![script.join(","), "observer".into()],
            cwd: slot.to_path_buf(),
            home: home.clone(),
            extra_env: extra,
            shim: ShimCfg { exe_names: "flagdrv".into(), seed: Some(7), pid: Some(2001), ..Default::default() },
        };
        let o = run_free(&spec, std::time::Duration::from_secs(60));
        for line in o.stdout.lines() {
            // "check f1 = true"
            let parts: Vec<&str> = line.split_whitespace().collect();
            if parts.len() == 4 && parts[0] == "check" {
                res.observer.entry(parts[1].to_string()).or_default().push(parts[3].to_string());
            }
        }
        if o.code != Some(0) {
            res.observer.insert("!observer-failed".into(), vec![format!("{:?} {}", o.code, o.stderr.chars().take(200).collect::<String>())]);
        }
    }
    for p in procs.iter_mut() {
        res.alive.push(p.alive);
        // a live process is either parked at "done" / blocked at a gate (kill it) or has exited by itself
        let code = if p.alive && p.exited { p.child.wait().ok().and_then(|s| s.code()) } else { None };
        let _ = p.child.kill();
        let _ = p.child.wait();
        res.exit_codes.push(code);
        unsafe { libc::close(p.sock) };
    }
    let _ = std::fs::remove_dir_all(slot);
    res
}

// ------------------------------------------------------------------ history → operations
#[derive(Clone, Debug)]
pub struct Op {
    pub proc: usize,
    pub kind: String,
    pub file: String,
    pub begin: usize,
    pub end: Option<usize>,
    pub result: Option<String>,
}

pub fn ops_of(r: &RunResult) -> Vec<Op> {
    let mut ops: Vec<Op> = vec![];
    for s in &r.steps {
        // "<k> R mark begin mark f1 len=0"
        let mut it = s.req.split(' ');
        let (_k, _cls, call) = (it.next(), it.next(), it.next());
        if call != Some("mark") {
            continue;
        }
        let rest: Vec<&str> = it.collect();
        let rest = rest.join(" ");
        let rest = rest.rsplit_once(" len=").map(|x| x.0.to_string()).unwrap_or(rest);
        let toks: Vec<&str> = rest.split(' ').collect();
        match toks.first().copied() {
            Some("begin") if toks.len() >= 3 => ops.push(Op { proc: s.proc, kind: toks[1].into(), file: toks[2].into(), begin: s.seq, end: None, result: None }),
            Some("end") if toks.len() >= 3 => {
                if let Some(op) = ops.iter_mut().rev().find(|o| o.proc == s.proc && o.end.is_none()) {
                    op.end = Some(s.seq);
                    op.result = rest.split_once(" = ").map(|x| x.1.to_string());
                }
            }
            _ => {}
        }
    }
    ops
}

fn kill_seq(r: &RunResult, proc: usize) -> Option<usize> {
    if let Some(k) = r.steps.iter().find(|s| s.proc == proc && s.kill).map(|s| s.seq) {
        return Some(k);
    }
    // died by itself after an injected spawn failure: dead from its last step on
    if !r.alive.get(proc).copied().unwrap_or(true) {
        return r.steps.iter().rev().find(|s| s.proc == proc).map(|s| s.seq);
    }
    None
}

/// Holder intervals: (proc, file, from = seq at which a successful mark returned, until = seq at which a
/// clear of it began or the process was killed).
pub fn holder_intervals(r: &RunResult, ops: &[Op]) -> Vec<(usize, String, usize, usize)> {
    let mut out = vec![];
    let nprocs = r.alive.len();
    for p in 0..nprocs {
        let mut held: BTreeMap<String, usize> = BTreeMap::new();
        for op in ops.iter().filter(|o| o.proc == p) {
            match op.kind.as_str() {
                "mark" => {
                    if op.result.as_deref() == Some("Ok") && !held.contains_key(&op.file) {
                        held.insert(op.file.clone(), op.end.unwrap());
                    }
                }
                "clear" => {
                    if let Some(from) = held.remove(&op.file) {
                        out.push((p, op.file.clone(), from, op.begin));
                    }
                }
                _ => {}
            }
        }
        let end = kill_seq(r, p).unwrap_or(usize::MAX);
        for (f, from) in held {
            if from < end {
                out.push((p, f, from, end));
            }
        }
    }
    out
}

/// The oracles. Returns (clause, detail) of the first violation.
pub fn judge(r: &RunResult) -> Option<(String, String)> {
    if r.step_cap_hit {
        return Some(("L".into(), format!("no quiescence within {STEP_CAP} scheduling steps")));
    }
    let ops = ops_of(r);
    for (i, c) in r.exit_codes.iter().enumerate() {
        if r.alive[i] {
            if let Some(code) = c {
                if *code != 0 {
                    return Some(("P".into(), format!("process p{i} terminated abnormally with exit code {code} (panic)")));
                }
            }
        }
    }
    let holders = holder_intervals(r, &ops);
    // V: a completed check may return false only if nobody else held the flag for the whole check
    for c in ops.iter().filter(|o| o.kind == "check" && o.end.is_some()) {
        if c.result.as_deref() == Some("false") {
            for (p, f, from, until) in &holders {
                if *p != c.proc && *f == c.file && *from < c.begin && *until > c.end.unwrap() {
                    return Some(("V".into(), format!("check by p{} of {} (steps {}..{}) returned false while p{} held the flag (marked at step {}, not cleared, alive)", c.proc, c.file, c.begin, c.end.unwrap(), p, from)));
                }
            }
        }
    }
    // Q: quiescence
    if let Some(e) = r.observer.get("!observer-failed") {
        return Some(("P".into(), format!("observer process failed: {e:?}")));
    }
    for (f, answers) in &r.observer {
        let live_holders: Vec<usize> = holders.iter().filter(|(p, hf, _, until)| hf == f && *until == usize::MAX && r.alive[*p]).map(|h| h.0).collect();
        if answers.len() != 2 {
            return Some(("P".into(), format!("observer gave {} answers for {f}", answers.len())));
        }
        if !live_holders.is_empty() {
            if answers[0] != "true" || answers[1] != "true" {
                return Some(("Q".into(), format!("at quiescence {f} is reported {answers:?} although live process(es) {live_holders:?} marked it and never cleared it")));
            }
        } else if answers[1] != "false" {
            return Some(("Q".into(), format!("at quiescence {f} is still reported dirty ({answers:?}) although no live process holds it")));
        }
    }
    None
}

/// Signature of a (minimised) violating history: which operations overlapped, whether a kill was needed,
/// and which window was hit.
pub fn signature(r: &RunResult) -> Vec<String> {
    let ops = ops_of(r);
    let mut sig: BTreeSet<String> = BTreeSet::new();
    let last = r.steps.len();
    for (i, a) in ops.iter().enumerate() {
        for b in ops.iter().skip(i + 1) {
            if a.proc == b.proc {
                continue;
            }
            let (ab, ae) = (a.begin, a.end.unwrap_or(last));
            let (bb, be) = (b.begin, b.end.unwrap_or(last));
            if ab < be && bb < ae {
                // do they really interleave (some step of one strictly inside the other)?
                let inner = r.steps.iter().any(|s| (s.proc == a.proc && s.seq > bb && s.seq < be && s.seq > ab && s.seq < ae) || (s.proc == b.proc && s.seq > ab && s.seq < ae && s.seq > bb && s.seq < be));
                if inner {
                    let mut names = [a.kind.clone(), b.kind.clone()];
                    names.sort();
                    sig.insert(format!("overlap:{}+{}:{}", names[0], names[1], if a.file == b.file { "same-file" } else { "other-file" }));
                }
            }
        }
    }
    if r.steps.iter().any(|s| s.kill) {
        sig.insert("kill".into());
    }
    if r.steps.iter().any(|s| s.fail != 0) {
        sig.insert("ps-spawn-failed".into());
    }
    if r.had_initial {
        sig.insert("initial-stale-flag".into());
    }
    // truncate window: a process opened/read a lock file while another one was between open(TRUNC) and write
    let mut in_window: BTreeMap<usize, usize> = BTreeMap::new(); // proc -> seq of its TRUNC open
    for s in &r.steps {
        if s.req.contains(" open TRUNC ") || s.req.contains(" open CREAT ") {
            in_window.insert(s.proc, s.seq);
        } else if s.req.contains(" M write ") {
            in_window.remove(&s.proc);
        } else if (s.req.contains(" R open RD ") || s.req.contains(" R read ")) && s.req.contains(".lock") && in_window.keys().any(|p| *p != s.proc) {
            sig.insert("window:read-between-truncate-and-write".into());
        }
    }
    // stale-removal TOCTOU: A opened a lock file, B then published a new file under the same name, and A
    // afterwards unlinked that name (A judged the *old* content stale and removed the *new* file by path)
    let mut opened: BTreeMap<(usize, String), usize> = BTreeMap::new(); // (proc, path) -> seq of its latest open
    let mut published: Vec<(usize, String, usize)> = vec![]; // (proc, path, seq)
    for st in &r.steps {
        let path = st.req.split(' ').find(|t| t.ends_with(".lock")).map(|t| t.to_string());
        let Some(path) = path else { continue };
        if st.req.contains(" R open RD ") {
            opened.insert((st.proc, path), st.seq);
        } else if st.req.contains(" M linkat ") || st.req.contains(" M link ") || st.req.contains(" open TRUNC ") || st.req.contains(" open CREAT ") {
            published.push((st.proc, path, st.seq));
        } else if st.req.contains(" M unlink ") {
            if let Some(&o) = opened.get(&(st.proc, path.clone())) {
                if published.iter().any(|(bp, pp, ps)| *bp != st.proc && *pp == path && *ps > o && *ps < st.seq) {
                    sig.insert("stale-unlink-of-replaced-file".into());
                }
            }
        }
    }
    sig.into_iter().collect()
}

// ------------------------------------------------------------------ generation
pub fn gen_workload(rng: &mut Rng) -> Workload {
    let nproc = if rng.chance(2, 3) { 2 } else { 3 };
    let two_files = rng.chance(1, 2);
    let mut scripts = vec![];
    for _ in 0..nproc {
        let role = rng.below(4);
        let n = rng.range(1, 4);
        let mut s = vec![];
        for _ in 0..n {
            let f = if two_files && rng.chance(1, 3) { "f2" } else { "f1" };
            let op = match role {
                0 | 1 => *rng.pick(&["mark", "mark", "clear", "check"]), // editor
                2 => *rng.pick(&["check", "check", "mark"]),              // formatter
                _ => *rng.pick(&["cleanup", "check", "mark"]),            // janitor
            };
            if op == "cleanup" {
                s.push("cleanup:-".to_string());
            } else {
                s.push(format!("{op}:{f}"));
            }
        }
        scripts.push(s);
    }
    let mut initial = vec![];
    if rng.chance(1, 3) {
        let content = *rng.pick(&["999", "999", "", "not-a-pid"]);
        initial.push(("f1".to_string(), content.to_string()));
    }
    Workload { scripts, initial }
}

pub fn gen_sched(rng: &mut Rng, nproc: usize, with_kills: bool) -> (Policy, Vec<KillPlan>, String) {
    let (policy, name) = match rng.below(6) {
        0 => (Policy::Uniform, "uniform".to_string()),
        1 => {
            let p = *rng.pick(&[50u64, 80, 95]);
            (Policy::Sticky(p), format!("sticky{p}"))
        }
        2 | 3 | 4 => {
            let t = *rng.pick(&[" open TRUNC ", " open CREAT ", " R read ", " spawn ps", " unlink ", " mkdir ", " M write ", " fsync ", " open RD ", " readdir "]);
            (Policy::SwitchAfter(t.to_string()), format!("switch-after[{}]", t.trim()))
        }
        _ => {
            let d = rng.range(1, 3);
            (Policy::Pct { prio: (0..nproc).map(|_| 1000 + rng.next_u64() % 1000).collect(), change_at: (0..d).map(|_| rng.below(60)).collect() }, format!("pct{d}"))
        }
    };
    let mut kills = vec![];
    if with_kills {
        let n = match rng.below(10) {
            0..=5 => 0,
            6..=8 => 1,
            _ => 2,
        };
        for _ in 0..n {
            let at = *rng.pick(&["", "", " M write ", " open TRUNC ", " spawn ps", " unlink ", " fsync ", " R read ", " mark end"]);
            if rng.chance(1, 4) {
                kills.push(KillPlan { spawn_fail: true, victim: rng.below(nproc), at_call: " spawn ps".to_string(), nth: rng.range(1, 3), seen: 0, done: false });
            } else {
                kills.push(KillPlan { spawn_fail: false, victim: rng.below(nproc), at_call: at.to_string(), nth: rng.range(1, if at.is_empty() { 25 } else { 3 }), seen: 0, done: false });
            }
        }
    }
    (policy, kills, name)
}

// ------------------------------------------------------------------ minimisation
fn violates(w: &Workload, d: &[Decision], slot: &Path, clause: &str) -> Option<RunResult> {
    let r = run_once(w, slot, Sched::Forced { list: d, pos: 0, tolerant: true });
    match judge(&r) {
        Some((c, _)) if c == clause => Some(r),
        _ => None,
    }
}

/// Shrink (workload, schedule) while the same oracle clause keeps failing.
pub fn minimise(w: &Workload, r: &RunResult, clause: &str, slot: &Path) -> (Workload, RunResult) {
    let mut w = w.clone();
    let mut best = r.clone();
    // 1. schedule: ddmin over the decision list under tolerant replay
    let d = ddmin(best.decisions.clone(), 200, |cand| violates(&w, cand, slot, clause).is_some());
    if let Some(r2) = violates(&w, &d, slot, clause) {
        best = r2;
    }
    // 2. workload: drop single operations (the decision list is re-interpreted tolerantly)
    let mut changed = true;
    while changed {
        changed = false;
        'outer: for pi in 0..w.scripts.len() {
            for oi in 0..w.scripts[pi].len() {
                let mut cand = w.clone();
                cand.scripts[pi].remove(oi);
                if let Some(r2) = violates(&cand, &best.decisions, slot, clause) {
                    w = cand;
                    best = r2;
                    changed = true;
                    break 'outer;
                }
            }
        }
    }
    if !w.initial.is_empty() {
        let mut cand = w.clone();
        cand.initial.clear();
        if let Some(r2) = violates(&cand, &best.decisions, slot, clause) {
            w = cand;
            best = r2;
        }
    }
    // 3. drop kills that are not needed
    for i in 0..best.decisions.len() {
        if best.decisions[i].kill || best.decisions[i].fail != 0 {
            let mut d2 = best.decisions.clone();
            d2[i].kill = false;
            d2[i].fail = 0;
            if let Some(r2) = violates(&w, &d2, slot, clause) {
                best = r2;
            }
        }
    }
    // 4. schedule again on the smaller workload, fewer context switches first
    let d = ddmin(best.decisions.clone(), 200, |cand| violates(&w, cand, slot, clause).is_some());
    if let Some(r2) = violates(&w, &d, slot, clause) {
        best = r2;
    }
    (w, best)
}

fn replay_json(w: &Workload, r: &RunResult, seed_info: Value) -> Value {
    json!({
        "workload": w.scripts, "initial_lock_files": w.initial,
        "decisions": r.decisions.iter().map(|d| json!([d.proc, if d.kill { "K".to_string() } else if d.fail != 0 { format!("F{}", d.fail) } else { "G".to_string() }])).collect::<Vec<_>>(),
        "history": r.steps.iter().map(|s| format!("{} p{} {} {}", s.seq, s.proc, if s.kill { "KILL".to_string() } else if s.fail != 0 { format!("FAIL(errno {})", s.fail) } else { "go".to_string() }, s.req)).collect::<Vec<_>>(),
        "observer": r.observer, "alive": r.alive, "origin": seed_info,
        "history_hash": format!("{:016x}", history_hash(r)),
    })
}

pub fn history_hash(r: &RunResult) -> u64 {
    let mut s = String::new();
    for st in &r.steps {
        s.push_str(&format!("{} {} {} {} {}\n", st.seq, st.proc, st.kill, st.fail, st.req));
    }
    s.push_str(&format!("{:?} {:?}", r.observer, r.alive));
    fnv64(s.as_bytes())
}

/// abstract interleaving: the sequence of (proc, call kind) without indices and paths
fn interleaving_hash(r: &RunResult) -> u64 {
    let mut s = String::new();
    for st in &r.steps {
        let mut it = st.req.split(' ');
        let (_k, _c, call, a1) = (it.next(), it.next(), it.next().unwrap_or(""), it.next().unwrap_or(""));
        s.push_str(&format!("{}{}{}{};", st.proc, if st.kill { "!" } else if st.fail != 0 { "?" } else { "" }, call, if call == "open" || call == "mark" { a1 } else { "" }));
    }
    fnv64(s.as_bytes())
}

pub fn main(cli: &Cli) -> i32 {
    let base = scratch_base().join("c25");
    if let Some(p) = &cli.replay {
        return replay(p, &base);
    }
    let mut ev = Evidence::new(PROP, &cli.tier, cli.seed, "exploration");
    let kf = KnownFindings::load("/verif/known_findings.json");
    let workers = engine_a_workers();
    let n_runs = cli.get_usize("runs", if cli.thorough() { 60_000 } else { 4_000 });
    let wall_cap = cli.get_usize("wall", if cli.thorough() { 3000 } else { 420 }) as f64;
    // ---- determinism self-check: same seed twice, in different slots
    let det_n = 48;
    let det = par_map(workers, det_n, |i| {
        let sub = derive(cli.seed, "c25-run", i as u64);
        let one = |tag: &str| {
            let mut wr = Rng::stream(sub, "workload");
            let w = gen_workload(&mut wr);
            let mut sr = Rng::stream(sub, "schedule");
            let (policy, kills, _) = gen_sched(&mut sr, w.scripts.len(), true);
            let r = run_once(&w, &base.join(format!("det{i}{tag}")), Sched::Seeded { rng: Rng::stream(sub, "choices"), policy, kills });
            history_hash(&r)
        };
        one("a") == one("b")
    });
    if det.iter().any(|ok| !ok) {
        harness_error(&format!("C25 determinism self-check failed: {} of {det_n} seeds gave different histories on a second run", det.iter().filter(|x| !**x).count()));
    }
    // ---- the batch (in chunks, so that a wall-clock cap can stop it)
    let mut report = Report::new(PROP);
    let mut done = 0usize;
    let mut hashes: BTreeSet<u64> = BTreeSet::new();
    let mut steps_total = 0usize;
    let mut kills_fired = 0usize;
    let mut spawn_fails_fired = 0usize;
    let mut probes: BTreeMap<String, usize> = BTreeMap::new();
    let mut policies: BTreeMap<String, usize> = BTreeMap::new();
    let mut samples: Vec<Value> = vec![];
    let mut classes_seen: BTreeMap<String, usize> = BTreeMap::new();
    let mut reported: BTreeSet<String> = BTreeSet::new();
    let mut reported_min: BTreeSet<String> = BTreeSet::new();
    let mut presumed_known = 0usize;
    let chunk = 512;
    while done < n_runs && ev.elapsed() < wall_cap {
        let n = chunk.min(n_runs - done);
        let results = par_map(workers, n, |j| {
            let i = done + j;
            let sub = derive(cli.seed, "c25-run", i as u64);
            let mut wr = Rng::stream(sub, "workload");
            let w = gen_workload(&mut wr);
            let mut sr = Rng::stream(sub, "schedule");
            let (policy, kills, pname) = gen_sched(&mut sr, w.scripts.len(), i % 2 == 1);
            let r = run_once(&w, &base.join(format!("r{i}")), Sched::Seeded { rng: Rng::stream(sub, "choices"), policy, kills });
            let verdict = judge(&r);
            (i, sub, w, r, verdict, pname)
        });
        for (i, sub, w, r, verdict, pname) in results {
            hashes.insert(interleaving_hash(&r));
            steps_total += r.steps.len();
            kills_fired += r.steps.iter().filter(|s| s.kill).count();
            spawn_fails_fired += r.steps.iter().filter(|s| s.fail != 0).count();
            *policies.entry(pname.split('[').next().unwrap().to_string()).or_insert(0) += 1;
            for s in signature(&r) {
                *probes.entry(s).or_insert(0) += 1;
            }
            let ops = ops_of(&r);
            if r.steps.iter().any(|s| s.kill) && !holder_intervals(&r, &ops).is_empty() {
                *probes.entry("owner-or-peer-killed-while-a-flag-was-set".into()).or_insert(0) += 1;
            }
            if r.steps.iter().any(|s| s.req.contains(" unlink ") && s.req.contains(".lock")) {
                *probes.entry("lock-file-unlinked".into()).or_insert(0) += 1;
            }
            if samples.len() < 3 && i % 701 == 5 {
                samples.push(replay_json(&w, &r, json!({"run": i, "policy": pname})));
            }
            if let Some((clause, _detail)) = verdict {
                ev.violations += 1;
                let raw_sig = signature(&r).join(",");
                let class = format!("{clause}|{raw_sig}");
                *classes_seen.entry(class.clone()).or_insert(0) += 1;
                // minimise + report each raw class once per run of the check (minimisation costs ~100 runs)
                // Every raw class is minimised and classified, except that classes whose raw history already shows
                // the mechanism of a listed known finding are only minimised 12 times per invocation (each costs
                // ~100 runs); the rest of those are counted as presumed-known.
                let looks_known = kf.known.iter().any(|k| k.property == PROP && k.clause == clause && !k.requires.is_empty() && k.requires.iter().all(|q| raw_sig.split(',').any(|x| x == q)));
                if looks_known && reported.len() >= 12 {
                    presumed_known += 1;
                } else if reported.insert(class) {
                    let (mw, mr) = minimise(&w, &r, &clause, &base.join(format!("min{i}")));
                    let detail = judge(&mr).map(|x| x.1).unwrap_or_default();
                    // strict replay in a fresh slot must reproduce the same history
                    let again = run_once(&mw, &base.join(format!("conf{i}")), Sched::Forced { list: &mr.decisions, pos: 0, tolerant: false });
                    if again.infeasible || history_hash(&again) != history_hash(&mr) || judge(&again).map(|x| x.0) != Some(clause.clone()) {
                        let dump = |r: &RunResult| r.steps.iter().map(|s| format!("{} p{} {} {}", s.seq, s.proc, s.kill, s.req)).collect::<Vec<_>>().join("\n");
                        let _ = std::fs::write("/tmp/c25-a.txt", format!("{}\n{:?} {:?}", dump(&mr), mr.observer, mr.alive));
                        let _ = std::fs::write("/tmp/c25-b.txt", format!("{}\n{:?} {:?}", dump(&again), again.observer, again.alive));
                        harness_error(&format!("C25: minimised history of run {i} does not replay exactly (infeasible={} judge={:?})", again.infeasible, judge(&again)));
                    }
                    let v = Violation { clause: clause.clone(), detail, signature: signature(&mr), replay: replay_json(&mw, &mr, json!({"verif_seed": cli.seed, "run": i, "sub_seed": sub, "policy": pname})) };
                    // one report per minimised class
                    if reported_min.insert(format!("{clause}|{}", v.signature.join(","))) {
                        report.add(&kf, &v, "/verif/replays", &format!("{}-{}", cli.seed, i));
                    }
                }
            }
        }
        done += n;
    }
    ev.set("evaluations", json!(done));
    ev.set("distinct_nontrivial", json!(hashes.len()));
    ev.set("rule", json!("one evaluation = one simulated run: 2-3 real processes with seeded scripts of mark/clear/check/cleanup operations on 1-2 files, every libc file-system call of every process granted one at a time by a seeded scheduler (uniform / sticky / switch-after-<call> bursts / PCT), odd-numbered runs with 0-2 SIGKILLs; distinct+non-trivial = distinct abstract interleavings, i.e. distinct sequences of (process, call kind, operation boundary, kill)"));
    ev.set("scheduling_steps_total", json!(steps_total));
    ev.set("faults_fired", json!({"SIGKILL": kills_fired, "EAGAIN on the spawn of ps (the process may crash: the unchanged code panics)": spawn_fails_fired}));
    ev.set("policies", json!(policies));
    ev.set("probes", json!(probes));
    ev.set("violating_runs_by_raw_class", json!(classes_seen));
    ev.set("violating_runs_not_minimised_because_raw_history_shows_a_known_finding", json!(presumed_known));
    ev.set("samples", json!(samples));
    ev.set("determinism_selfcheck", json!({"seeds_run_twice": det_n, "divergences": 0}));
    ev.set("components", json!({"real": ["forc_util::fs_locking", "sway_lsp::core::document::PidLockedFiles", "glibc", "kernel tmpfs", "process boundary / SIGKILL"], "stub": ["ps (liveness table owned by the simulator)", "getpid values (1001…)", "the driver's main() (flagdrv)"]}));
    ev.set("known_findings_seen", json!(report.known_hits.keys().collect::<Vec<_>>()));
    ev.assumptions = vec!["pids are not reused within a run".into(), "a process's libc calls take effect atomically, in the order the controller grants them".into(), "only main-thread calls are scheduling points (the code under test is single-threaded)".into()];
    ev.write("/verif/evidence");
    cleanup_scratch();
    report.finish()
}

fn replay(path: &str, base: &PathBuf) -> i32 {
    let txt = std::fs::read_to_string(path).unwrap_or_else(|e| harness_error(&format!("cannot read replay {path}: {e}")));
    let v: Value = serde_json::from_str(&txt).unwrap_or_else(|e| harness_error(&format!("bad replay json: {e}")));
    let scripts: Vec<Vec<String>> = serde_json::from_value(v["workload"].clone()).unwrap_or_else(|_| harness_error("replay: bad workload"));
    let decisions: Vec<Decision> = v["decisions"].as_array().cloned().unwrap_or_default().iter().map(|d| Decision { proc: d[0].as_u64().unwrap_or(0) as usize, kill: d[1].as_str() == Some("K"), fail: d[1].as_str().and_then(|s| s.strip_prefix('F')).and_then(|n| n.parse().ok()).unwrap_or(0) }).collect();
    let initial: Vec<(String, String)> = serde_json::from_value(v["initial_lock_files"].clone()).unwrap_or_default();
    let w = Workload { scripts, initial };
    let r = run_once(&w, &base.join("replay"), Sched::Forced { list: &decisions, pos: 0, tolerant: false });
    cleanup_scratch();
    if r.infeasible {
        harness_error("replay: a forced decision was infeasible (the code under test no longer follows this schedule)");
    }
    for s in &r.steps {
        println!("{} p{} {} {}", s.seq, s.proc, if s.kill { "KILL".to_string() } else if s.fail != 0 { format!("FAIL({})", s.fail) } else { "go".to_string() }, s.req);
    }
    println!("observer: {:?}", r.observer);
    let want = v["clause"].as_str().unwrap_or("");
    let same_hash = v["history_hash"].as_str() == Some(&format!("{:016x}", history_hash(&r)));
    match judge(&r) {
        Some((c, d)) if c == want => {
            println!("reproduced clause {c}: {d} (history hash {})", if same_hash { "identical" } else { "DIFFERS" });
            println!("VIOLATION property={PROP} replay={path}");
            1
        }
        Some((c, d)) => {
            println!("different clause {c}: {d}");
            2
        }
        None => {
            println!("replay did not reproduce");
            0
        }
    }
}
