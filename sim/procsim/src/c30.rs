//! C30 — dependency fetching is crash-safe. DESIGN.md §4.3.
//!
//! Real `forc build` (as `vforc`) of a consumer package with a `file://` git dependency, run behind
//! the libc shim. Every mutating libc call of the main thread is a crash point (KILL), every write a
//! torn-write point (TORN); errno faults, short writes and multi-fault sequences are sampled by seed.
//! After the fault sequence a fault-free run must succeed over a complete checkout of the pinned commit.
use crate::launch::*;
use serde_json::{json, Value};
use simcore::*;
use std::collections::{BTreeMap, BTreeSet};
use std::path::{Path, PathBuf};
use std::time::Duration;

const PROP: &str = "C30";
pub static LINE_ENDING_ONLY: std::sync::atomic::AtomicUsize = std::sync::atomic::AtomicUsize::new(0);

#[derive(Clone, Debug)]
pub struct Scenario {
    pub seed: u64,
    pub idx: usize,
    pub dir: PathBuf,
    pub origin: PathBuf,
    pub commit: String,
    pub refkind: String,
    pub refval: String,
    pub subdir: String,
    /// files of the pinned commit, relative to the repository root
    pub reference: BTreeMap<String, Vec<u8>>,
    pub cons_toml: String,
    pub cons_lib: String,
    pub descr: Value,
    /// a second git dependency of the consumer (its own origin repository): (pinned commit, files)
    pub second: Option<(String, BTreeMap<String, Vec<u8>>)>,
}

fn git(dir: &Path, home: &Path, args: &[&str]) -> String {
    let out = std::process::Command::new("git")
        .args(args)
        .current_dir(dir)
        .env_clear()
        .env("PATH", "/usr/bin:/bin")
        .env("HOME", home)
        .env("GIT_CONFIG_NOSYSTEM", "1")
        .env("GIT_AUTHOR_NAME", "sim")
        .env("GIT_AUTHOR_EMAIL", "sim@example.com")
        .env("GIT_COMMITTER_NAME", "sim")
        .env("GIT_COMMITTER_EMAIL", "sim@example.com")
        .env("GIT_AUTHOR_DATE", "2021-01-01T00:00:00Z")
        .env("GIT_COMMITTER_DATE", "2021-01-01T00:00:00Z")
        .output()
        .unwrap_or_else(|e| harness_error(&format!("git: {e}")));
    if !out.status.success() {
        harness_error(&format!("git {:?} failed: {}", args, String::from_utf8_lossy(&out.stderr)));
    }
    String::from_utf8_lossy(&out.stdout).trim().to_string()
}

fn filler(rng: &mut Rng, n: usize, text: bool) -> Vec<u8> {
    let mut v = Vec::with_capacity(n);
    let mut col = 0;
    while v.len() < n {
        let b = if text {
            if col >= 72 {
                col = 0;
                b'\n'
            } else {
                col += 1;
                b"abcdefghijklmnopqrstuvwxyz 0123456789"[rng.below(37)]
            }
        } else {
            (rng.next_u64() & 0xff) as u8
        };
        v.push(b);
    }
    v
}

/// Scenario `idx` of seed `seed`: idx 0 is always the smallest one (one file, rev reference).
pub fn make_scenario(base: &Path, seed: u64, idx: usize) -> Scenario {
    let mut rng = Rng::new(derive(seed, "c30-scenario", idx as u64));
    let dir = base.join(format!("scn{idx}"));
    let _ = std::fs::remove_dir_all(&dir);
    let origin = dir.join("origin");
    let small = idx == 0;
    let subdir = if !small && rng.chance(1, 3) { "pkgs/deplib/".to_string() } else { String::new() };
    let n_mods = if small { 0 } else { rng.below(3) };
    let n_data = if small { 0 } else { rng.below(5) };
    let sizes = [0usize, 1, 100, 4096, 70_000, 262_144];
    let mut files: BTreeMap<String, Vec<u8>> = BTreeMap::new();
    let mods: Vec<String> = (0..n_mods).map(|i| format!("m{i}")).collect();
    let mut lib = String::from("library;\n\n");
    for m in &mods {
        lib.push_str(&format!("pub mod {m};\n"));
    }
    let base_val = 7 + rng.below(1000);
    lib.push_str(&format!("\npub fn seven() -> u64 {{\n    {base_val}\n}}\n"));
    let pad = if small { 0 } else { *rng.pick(&[0usize, 3000, 70_000]) };
    if pad > 0 {
        lib.push_str("\n/*\n");
        lib.push_str(&String::from_utf8(filler(&mut rng, pad, true)).unwrap());
        lib.push_str("\n*/\n");
        lib.push_str("pub fn after_padding() -> u64 {\n    1\n}\n");
    }
    files.insert(format!("{subdir}src/lib.sw"), lib.into_bytes());
    for (i, m) in mods.iter().enumerate() {
        let mut t = format!("library;\n\npub fn f_{m}() -> u64 {{\n    {}\n}}\n", 100 + i);
        if rng.chance(1, 2) {
            t.push_str("\n// ");
            t.push_str(&String::from_utf8(filler(&mut rng, 5000, true)).unwrap().replace('\n', "\n// "));
            t.push_str(&format!("\npub fn g_{m}() -> u64 {{\n    2\n}}\n"));
        }
        files.insert(format!("{subdir}src/{m}.sw"), t.into_bytes());
    }
    files.insert(
        format!("{subdir}Forc.toml"),
        b"[project]\nauthors = [\"sim\"]\nentry = \"lib.sw\"\nlicense = \"Apache-2.0\"\nname = \"deplib\"\nimplicit-std = false\n".to_vec(),
    );
    let data_names = ["README.md", "assets/blob.bin", "docs/deep/er/notes.txt", "LICENSE", ".gitignore"];
    for i in 0..n_data {
        let name = data_names[i % data_names.len()];
        let sz = *rng.pick(&sizes);
        files.insert(name.to_string(), filler(&mut rng, sz, !name.ends_with(".bin")));
    }
    for (rel, bytes) in &files {
        write_file(&origin.join(rel), bytes);
    }
    // a dependency whose own tree contains a file called `.forc_index` (nothing forbids it): the completeness marker
    // forc writes last then already exists early in the checkout
    if !small && (idx % 4 == 1 || rng.chance(1, 10)) {
        files.insert(".forc_index".into(), b"{}\n".to_vec());
        write_file(&origin.join(".forc_index"), b"{}\n");
    }
    // an executable file and a symbolic link: libgit2 then also issues chmod / symlink calls during checkout
    let mut extra_descr = vec![];
    if !small && rng.chance(1, 2) {
        let rel = "scripts/run.sh";
        let body = b"#!/bin/sh\necho run\n".to_vec();
        write_file(&origin.join(rel), &body);
        use std::os::unix::fs::PermissionsExt;
        std::fs::set_permissions(origin.join(rel), std::fs::Permissions::from_mode(0o755)).ok();
        files.insert(rel.to_string(), body);
        extra_descr.push("executable file");
    }
    if !small && rng.chance(1, 2) {
        let rel = "LINK";
        let target = format!("{subdir}Forc.toml");
        let _ = std::os::unix::fs::symlink(&target, origin.join(rel));
        files.insert(rel.to_string(), format!("-> {:?}", Some(std::path::PathBuf::from(&target))).into_bytes());
        extra_descr.push("symlink");
    }
    git(&origin, &dir, &["init", "-q", "-b", "main", "."]);
    git(&origin, &dir, &["add", "-A"]);
    git(&origin, &dir, &["commit", "-q", "-m", "pinned"]);
    let commit = git(&origin, &dir, &["rev-parse", "HEAD"]);
    let refkind = if small { "rev" } else { *rng.pick(&["rev", "rev", "tag", "branch"]) }.to_string();
    let refval = match refkind.as_str() {
        "rev" => commit.clone(),
        "tag" => {
            git(&origin, &dir, &["tag", "v1"]);
            "v1".into()
        }
        _ => {
            git(&origin, &dir, &["branch", "stable"]);
            "stable".into()
        }
    };
    // a later commit on main that must never be what gets compiled
    if !small && rng.chance(2, 3) {
        write_file(&origin.join(format!("{subdir}src/lib.sw")), b"library;\npub fn seven() -> u64 { 0 }\npub fn newer() -> u64 { 9 }\n");
        write_file(&origin.join("NEWER.txt"), b"newer\n");
        git(&origin, &dir, &["add", "-A"]);
        git(&origin, &dir, &["commit", "-q", "-m", "newer"]);
    }
    let url = format!("file://{}", origin.display());
    let mut cons_toml = format!(
        "[project]\nauthors = [\"sim\"]\nentry = \"lib.sw\"\nlicense = \"Apache-2.0\"\nname = \"cons\"\nimplicit-std = false\n\n[dependencies]\ndeplib = {{ git = \"{url}\", {refkind} = \"{refval}\" }}\n"
    );
    // a third of the larger scenarios have a second git dependency from another repository: a crash can then
    // fall between the two fetches, or inside the second one while the first checkout is complete
    let mut second = None;
    if !small && (idx % 3 == 2 || rng.chance(1, 6)) {
        let origin2 = dir.join("origin2");
        let mut files2: BTreeMap<String, Vec<u8>> = BTreeMap::new();
        files2.insert("Forc.toml".into(), b"[project]\nauthors = [\"sim\"]\nentry = \"lib.sw\"\nlicense = \"Apache-2.0\"\nname = \"otherlib\"\nimplicit-std = false\n".to_vec());
        let mut l2 = String::from("library;\n\npub fn eight() -> u64 {\n    8\n}\n");
        if rng.chance(1, 2) {
            l2.push_str("\n/*\n");
            l2.push_str(&String::from_utf8(filler(&mut rng, 20_000, true)).unwrap());
            l2.push_str("\n*/\n");
        }
        files2.insert("src/lib.sw".into(), l2.into_bytes());
        files2.insert("NOTES.txt".into(), filler(&mut rng, 5000, true));
        for (rel, bytes) in &files2 {
            write_file(&origin2.join(rel), bytes);
        }
        git(&origin2, &dir, &["init", "-q", "-b", "main", "."]);
        git(&origin2, &dir, &["add", "-A"]);
        git(&origin2, &dir, &["commit", "-q", "-m", "pinned2"]);
        let commit2 = git(&origin2, &dir, &["rev-parse", "HEAD"]);
        cons_toml.push_str(&format!("otherlib = {{ git = \"file://{}\", rev = \"{commit2}\" }}\n", origin2.display()));
        second = Some((commit2, files2));
    }
    let mut cons_lib = String::from("library;\n\nuse deplib::seven;\n");
    for m in &mods {
        cons_lib.push_str(&format!("use deplib::{m}::f_{m};\n"));
    }
    let mut expr = String::from("seven()");
    for m in &mods {
        expr = format!("__add({expr}, f_{m}())");
    }
    if pad > 0 {
        expr = format!("__add({expr}, deplib::after_padding())");
    }
    if second.is_some() {
        cons_lib.push_str("use otherlib::eight;\n");
        expr = format!("__add({expr}, eight())");
    }
    cons_lib.push_str(&format!("\npub fn total() -> u64 {{\n    {expr}\n}}\n"));
    let descr = json!({"scenario_seed": seed, "scenario_idx": idx, "files": files.iter().map(|(k, v)| json!([k, v.len()])).collect::<Vec<_>>(),
        "reference": format!("{refkind}={refval}"), "commit": commit, "package_subdir": subdir, "special_files": extra_descr, "second_dependency": second.as_ref().map(|x| x.0.clone())});
    Scenario { seed, idx, dir, origin, commit, refkind, refval, subdir, reference: files, cons_toml, cons_lib, descr, second }
}

#[derive(Clone, Debug)]
pub struct RunCfg {
    /// shim fault plan for this run ("" = fault-free)
    pub plan: String,
    pub gate: String,
    pub clock: i64,
}

#[derive(Clone, Debug)]
pub struct Trial {
    pub name: String,
    pub runs: Vec<RunCfg>,
    /// Forc.lock present in the consumer before the first run (a project cloned with its committed lock file
    /// onto a machine with an empty forc cache): the dependency is then resolved from the lock, not pinned
    pub prelock: Option<String>,
}

#[derive(Clone, Debug, Default)]
pub struct TrialResult {
    pub violation: Option<(String, String)>, // (clause, detail)
    pub fired: Vec<String>,                  // fault kinds that actually fired
    pub probes: BTreeSet<String>,
    pub outcomes: Vec<String>,
    pub logs: Vec<ShimLog>,
    pub stderrs: Vec<String>,
    pub lock_text: Option<String>,
}

fn spec_for(scn: &Scenario, home: &Path, cons: &Path, run: &RunCfg, log: Option<&Path>) -> Spec {
    Spec {
        exe: format!("{}/vforc", tools_dir()),
        args: vec!["build".into()],
        cwd: cons.to_path_buf(),
        home: home.to_path_buf(),
        extra_env: BTreeMap::new(),
        shim: ShimCfg {
            exe_names: "vforc".into(),
            seed: Some(derive(scn.seed, "entropy", 0)),
            pid: Some(4242),
            clock_ns: Some(run.clock),
            roots: vec![home.display().to_string(), cons.display().to_string()],
            gate: run.gate.clone(),
            log: log.map(|p| p.display().to_string()),
            plan: if run.plan.is_empty() { None } else { Some(run.plan.clone()) },
            ..Default::default()
        },
    }
}

fn checkout_dirs(home: &Path) -> Vec<PathBuf> {
    let mut out = vec![];
    let co = home.join(".forc/git/checkouts");
    if let Ok(rd) = std::fs::read_dir(&co) {
        for e in rd.flatten() {
            if e.file_name() == "tmp" {
                continue;
            }
            if let Ok(rd2) = std::fs::read_dir(e.path()) {
                for c in rd2.flatten() {
                    if c.path().is_dir() {
                        out.push(c.path());
                    }
                }
            }
        }
    }
    out.sort();
    out
}

/// State of the checkout's `.forc_index` (forc metadata, not part of the commit): reported as a probe, not judged.
fn index_state(scn: &Scenario, home: &Path) -> &'static str {
    let dirs = checkout_dirs(home);
    let Some(dir) = dirs.iter().find(|d| d.file_name().map(|n| n.to_string_lossy() == scn.commit.as_str()).unwrap_or(false)) else { return "no-checkout" };
    match std::fs::read(dir.join(".forc_index")) {
        Err(_) => "index-missing",
        Ok(b) => match serde_json::from_slice::<Value>(&b) {
            Ok(_) if String::from_utf8_lossy(&b).contains(&scn.commit) => "index-ok",
            Ok(_) => "index-names-other-commit",
            Err(_) => "index-corrupt",
        },
    }
}

/// R1/R3 over the state a successful run leaves behind (every git dependency of the consumer).
pub fn judge_tree(scn: &Scenario, home: &Path, cons: &Path) -> Option<(String, String)> {
    if let Some(v) = judge_one(&scn.commit, &scn.reference, home, cons) {
        return Some(v);
    }
    if let Some((c2, f2)) = &scn.second {
        if let Some((clause, d)) = judge_one(c2, f2, home, cons) {
            return Some((clause, format!("second dependency: {d}")));
        }
    }
    None
}

fn judge_one(commit: &str, reference: &BTreeMap<String, Vec<u8>>, home: &Path, cons: &Path) -> Option<(String, String)> {
    let dirs = checkout_dirs(home);
    let want = dirs.iter().find(|d| d.file_name().map(|n| n.to_string_lossy() == commit).unwrap_or(false));
    let Some(dir) = want else {
        return Some(("R1".into(), format!("build succeeded but no checkout directory of the pinned commit exists; checkouts={dirs:?}")));
    };
    let tree = read_tree(dir);
    let mut problems = vec![];
    for (rel, bytes) in reference {
        if rel == ".forc_index" {
            continue; // forc overwrites a file of this name with its own index at the end of the fetch
        }
        match tree.get(rel) {
            None => problems.push(format!("missing {rel}")),
            Some(b) if b != bytes => {
                // libgit2 applies its CRLF filter when a config lookup fails with an injected errno (observed:
                // EIO on stat(~/.gitconfig)); a checkout that differs only in line endings is complete, so it
                // is reported as a probe (DESIGN.md §8 "observations"), not as a partial checkout.
                let norm = |x: &[u8]| String::from_utf8_lossy(x).replace("\r\n", "\n");
                if norm(b) == norm(bytes) {
                    LINE_ENDING_ONLY.fetch_add(1, std::sync::atomic::Ordering::SeqCst);
                } else {
                    problems.push(format!("content of {rel} differs ({} bytes instead of {})", b.len(), bytes.len()))
                }
            }
            _ => {}
        }
    }
    for rel in tree.keys() {
        if rel.ends_with('/') || rel == ".forc_index" {
            continue;
        }
        if !reference.contains_key(rel) {
            problems.push(format!("unexpected file {rel}"));
        }
    }
    if !problems.is_empty() {
        problems.truncate(4);
        return Some(("R1".into(), format!("a build succeeded over a checkout that differs from the pinned commit: {}", problems.join("; "))));
    }
    let lock = std::fs::read_to_string(cons.join("Forc.lock")).unwrap_or_default();
    if !lock.contains(commit) {
        return Some(("R3".into(), "Forc.lock of the successful build does not pin the reference commit".into()));
    }
    None
}

pub fn run_trial(scn: &Scenario, trial: &Trial, slot: &Path, keep_logs: bool) -> TrialResult {
    let _ = std::fs::remove_dir_all(slot);
    let home = slot.join("home");
    let cons = slot.join("cons");
    std::fs::create_dir_all(&home).unwrap();
    write_file(&cons.join("Forc.toml"), scn.cons_toml.as_bytes());
    write_file(&cons.join("src/lib.sw"), scn.cons_lib.as_bytes());
    if let Some(l) = &trial.prelock {
        write_file(&cons.join("Forc.lock"), l.as_bytes());
    }
    let mut res = TrialResult::default();
    let n = trial.runs.len();
    for (i, run) in trial.runs.iter().enumerate() {
        let last = i + 1 == n;
        let log = slot.join(format!("log{i}"));
        let leftover_tmp = std::fs::read_dir(home.join(".forc/git/checkouts/tmp")).map(|r| r.count()).unwrap_or(0);
        if leftover_tmp > 0 {
            res.probes.insert("restart_found_leftover_tmp_clone".into());
        }
        let o = run_free(&spec_for(scn, &home, &cons, run, Some(&log)), Duration::from_secs(120));
        let sl = parse_log(&log);
        for (k, v) in &sl.notes {
            if let Some(kind) = k.strip_prefix("fired-") {
                for _ in 0..*v {
                    res.fired.push(kind.to_string());
                }
            }
        }
        if keep_logs {
            res.logs.push(sl);
            res.stderrs.push(format!("{}\n{}", o.stdout, o.stderr));
        }
        res.outcomes.push(match (o.code, o.signal, o.timed_out) {
            (_, _, true) => "timeout".into(),
            (Some(c), _, _) => format!("exit{c}"),
            (None, Some(s), _) => format!("sig{s}"),
            _ => "?".into(),
        });
        if o.timed_out {
            if run.plan.is_empty() {
                res.violation = Some(("R2".into(), "fault-free build did not finish within 120 s".into()));
                return res;
            }
            res.probes.insert("faulted_run_timed_out".into());
            continue;
        }
        if o.code == Some(0) {
            if keep_logs {
                res.lock_text = std::fs::read_to_string(cons.join("Forc.lock")).ok();
            }
            if let Some(v) = judge_tree(scn, &home, &cons) {
                res.violation = Some(v);
                return res;
            }
            if !run.plan.is_empty() {
                res.probes.insert("faulted_run_still_succeeded".into());
            }
            let ix = index_state(scn, &home);
            if ix != "index-ok" {
                res.probes.insert(format!("successful_build_over_complete_tree_but_{ix}"));
            }
        } else if last && run.plan.is_empty() {
            // R2: wedged cache. Distinguish "tree complete but build fails" from "partial tree".
            let err = o.stderr.lines().rev().find(|l| !l.trim().is_empty()).unwrap_or("").trim().to_string();
            let all = o.stderr.replace(&slot.display().to_string(), "$SLOT");
            let first_err = all.lines().map(strip_ansi).filter(|l| l.contains("rror") && l.trim().len() > 8).next().unwrap_or(err.clone()).trim().to_string();
            let partial = judge_tree(scn, &home, &cons).map(|(c, _)| c == "R1").unwrap_or(false);
            let clause = if partial { "R1" } else { "R2" };
            res.violation = Some((clause.into(), format!("after the fault sequence a fault-free build fails ({}): {}", res.outcomes.join(","), strip_ansi(&first_err).chars().take(220).collect::<String>())));
            return res;
        }
    }
    res
}

/// Classify an event's target for signatures and probes.
pub fn site_of(ev: &LogEvent) -> &'static str {
    let a = &ev.arg;
    if a.contains("/git/checkouts/tmp/") {
        "tmp-clone"
    } else if a.ends_with(".forc_index") {
        "forc-index"
    } else if a.contains("/git/checkouts/") {
        "checkout"
    } else if a.contains("/.forc/.locks/") || a.ends_with(".forc-lock") {
        "advisory-lock"
    } else if a.ends_with("Forc.lock") {
        "cons-lock"
    } else if a.contains("/cons/out") {
        "cons-out"
    } else if a.contains("/.forc/") {
        "forc-home"
    } else {
        "other"
    }
}

struct Planned {
    trial: Trial,
    /// signature elements: fault kind @ site
    sig: Vec<String>,
    exhaustive_part: bool,
}

fn base_clock(scn: &Scenario, variant: u64) -> i64 {
    1_000_000_000_000 + (derive(scn.seed, "clock", variant) % 1_000_000) as i64 * 1_000_000
}

pub fn main(cli: &Cli) -> i32 {
    let mut ev = Evidence::new(PROP, &cli.tier, cli.seed, "fault_enumeration");
    let kf = KnownFindings::load("/verif/known_findings.json");
    let base = scratch_base().join("c30");
    let workers = engine_a_workers();
    if let Some(path) = &cli.replay {
        return replay(path, &base);
    }
    let n_scn = cli.get_usize("scenarios", if cli.thorough() { 24 } else { 3 });
    let n_sampled = cli.get_usize("sampled", if cli.thorough() { 400 } else { 96 });
    let n_two = cli.get_usize("two", if cli.thorough() { 60 } else { 20 });
    let two_only = cli.get_usize("two-only", 0) > 0;
    let mut two_runs = 0usize;
    let mut report = Report::new(PROP);
    let mut total_trials = 0usize;
    let mut fired_by_kind: BTreeMap<String, usize> = BTreeMap::new();
    let mut fired_by_site: BTreeMap<String, usize> = BTreeMap::new();
    let mut probes: BTreeMap<String, usize> = BTreeMap::new();
    let mut distinct: BTreeSet<String> = BTreeSet::new();
    let mut samples: Vec<Value> = vec![];
    let mut scn_descr: Vec<Value> = vec![];
    let mut det_checked = 0usize;
    let mut crash_points_total = 0usize;
    let mut other_thread_calls = 0usize;
    let mut seen_violation_keys: BTreeSet<String> = BTreeSet::new();

    for si in 0..n_scn {
        let scn = make_scenario(&base, cli.seed, si);
        let clock0 = base_clock(&scn, 0);
        // recording runs (fault-free) in both gate modes, twice each: determinism of the event sequence
        let mut recs: BTreeMap<&str, ShimLog> = BTreeMap::new();
        for gate in ["M", "MR"] {
            let t = Trial { name: "record".into(), runs: vec![RunCfg { plan: String::new(), gate: gate.into(), clock: clock0 }], prelock: None };
            let r1 = run_trial(&scn, &t, &base.join(format!("rec-{si}-{gate}-a")), true);
            let r2 = run_trial(&scn, &t, &base.join(format!("rec-{si}-{gate}-b")), true);
            if let Some((c, d)) = &r1.violation {
                // a generated scenario whose never-faulted build fails says nothing about crash safety
                harness_error(&format!("C30: the fault-free build of scenario {si} fails ({c}: {}): generator or toolchain problem\n{}", strip_ansi(d), r1.stderrs.first().map(|s| strip_ansi(s)).unwrap_or_default()));
            }
            let norm = |l: &ShimLog, slot: &str| l.events.iter().map(|e| format!("{} {} {} {} {}", e.k, e.cls, e.call, mask_hashes(&e.arg.replace(slot, "$S")), e.len)).collect::<Vec<_>>().join("\n");
            let a = norm(&r1.logs[0], &format!("rec-{si}-{gate}-a"));
            let b = norm(&r2.logs[0], &format!("rec-{si}-{gate}-b"));
            det_checked += 1;
            if a != b {
                debug_dump(&a, &b);
                harness_error(&format!("C30 recording is not deterministic (scenario {si}, gate {gate}): event logs of two identical fault-free runs differ"));
            }
            other_thread_calls += r1.logs[0].other_thread;
            recs.insert(gate, r1.logs.into_iter().next().unwrap());
        }
        // the lock file a never-faulted build leaves behind, and the event sequence of a build that starts from it
        // with an empty cache (no pin step: the commit comes from the lock)
        let lock_text = {
            let t = Trial { name: "record-lock".into(), runs: vec![RunCfg { plan: String::new(), gate: "M".into(), clock: clock0 }], prelock: None };
            run_trial(&scn, &t, &base.join(format!("rec-{si}-lock")), true).lock_text
        };
        let rec_locked = lock_text.as_ref().map(|l| {
            let t = Trial { name: "record-prelocked".into(), runs: vec![RunCfg { plan: String::new(), gate: "M".into(), clock: clock0 }], prelock: Some(l.clone()) };
            let r = run_trial(&scn, &t, &base.join(format!("rec-{si}-prelocked")), true);
            if let Some((c, d)) = &r.violation {
                harness_error(&format!("C30: the fault-free build of scenario {si} from a committed Forc.lock fails ({c}: {})", strip_ansi(d)));
            }
            r.logs.into_iter().next().unwrap()
        });
        let rec_m = &recs["M"];
        let rec_mr = &recs["MR"];
        scn_descr.push(json!({"scenario": scn.descr, "mutating_events": rec_m.events.len(), "all_events": rec_mr.events.len()}));
        // ---- plan: exhaustive part
        let mut planned: Vec<Planned> = vec![];
        for e in &rec_m.events {
            planned.push(Planned {
                trial: Trial { name: format!("K{}", e.k), runs: vec![RunCfg { plan: format!("{}:K", e.k), gate: "M".into(), clock: clock0 }, RunCfg { plan: String::new(), gate: "M".into(), clock: clock0 }], prelock: None },
                sig: vec![format!("KILL@{}:{}", e.call, site_of(e))],
                exhaustive_part: true,
            });
            if (e.call == "write" || e.call == "pwrite" || e.call == "writev") && e.len >= 2 {
                planned.push(Planned {
                    trial: Trial { name: format!("T{}", e.k), runs: vec![RunCfg { plan: format!("{}:T:{}", e.k, e.len / 2), gate: "M".into(), clock: clock0 }, RunCfg { plan: String::new(), gate: "M".into(), clock: clock0 }], prelock: None },
                    sig: vec![format!("TORN@{}:{}", e.call, site_of(e))],
                    exhaustive_part: true,
                });
            }
        }
        // the same enumeration of KILL points for the build that starts from a committed Forc.lock
        if let (Some(l), Some(rl)) = (&lock_text, &rec_locked) {
            for e in &rl.events {
                planned.push(Planned {
                    trial: Trial { name: format!("LK{}", e.k), runs: vec![RunCfg { plan: format!("{}:K", e.k), gate: "M".into(), clock: clock0 }, RunCfg { plan: String::new(), gate: "M".into(), clock: clock0 }], prelock: Some(l.clone()) },
                    sig: vec![format!("KILL@{}:{}", e.call, site_of(e)), "prelocked".into()],
                    exhaustive_part: true,
                });
            }
        }
        crash_points_total += planned.len();
        // persistent failures: from one event on, every call fails for a while (a full disk, a dying device)
        {
            let mut rng = Rng::new(derive(cli.seed, "c30-persistent", si as u64));
            for _ in 0..(n_sampled / n_scn.max(1) / 4 + 2) {
                let e = rng.pick(&rec_m.events).clone();
                let errno = *rng.pick(&[libc::ENOSPC, libc::EIO, libc::EACCES]);
                planned.push(Planned {
                    trial: Trial { name: format!("E{}e{}", e.k, errno), runs: vec![RunCfg { plan: format!("{}:E:{}", e.k, errno), gate: "M".into(), clock: clock0 }, RunCfg { plan: String::new(), gate: "M".into(), clock: clock0 }], prelock: None },
                    sig: vec![format!("PERSISTENT-ERRNO{}@{}:{}", errno, e.call, site_of(&e))],
                    exhaustive_part: false,
                });
            }
        }
        // one file (or directory) of the checkout that the file system refuses for as long as the build runs — every
        // retry meets the same error, everything around it succeeds
        {
            let mut rng = Rng::new(derive(cli.seed, "c30-pathfail", si as u64));
            let mut targets: BTreeSet<String> = BTreeSet::new();
            for e in &rec_m.events {
                if site_of(e) == "checkout" {
                    if let Some(at) = e.arg.find("/git/checkouts/") {
                        let rest: Vec<&str> = e.arg[at + "/git/checkouts/".len()..].split_whitespace().next().unwrap_or("").split('/').collect();
                        if rest.len() >= 3 {
                            targets.insert(format!("/{}", rest[1..].join("/")));
                        }
                    }
                }
            }
            let mut targets: Vec<String> = targets.into_iter().collect();
            for i in (1..targets.len()).rev() {
                let j = rng.below(i + 1);
                targets.swap(i, j);
            }
            for t in targets.iter().take(if cli.thorough() { 24 } else { 10 }) {
                let errno = *rng.pick(&[libc::ENOSPC, libc::EIO, libc::EACCES, libc::EDQUOT]);
                planned.push(Planned {
                    trial: Trial { name: format!("P{}e{}", fnv64(t.as_bytes()) % 100000, errno), runs: vec![RunCfg { plan: format!("P:{errno}:{t}"), gate: "M".into(), clock: clock0 }, RunCfg { plan: String::new(), gate: "M".into(), clock: clock0 }], prelock: None },
                    sig: vec![format!("PATH-ERRNO{}:checkout", errno)],
                    exhaustive_part: false,
                });
            }
        }
        // ---- plan: sampled part (errno, short writes, two-fault sequences, restart with another clock)
        let mut rng = Rng::new(derive(cli.seed, "c30-sampled", si as u64));
        let per_scn = n_sampled / n_scn.max(1) + 1;
        for j in 0..per_scn {
            let clock_b = if rng.chance(1, 2) { clock0 } else { base_clock(&scn, 1 + j as u64) };
            match rng.below(5) {
                0 | 1 => {
                    // errno on any event (mutating or read-only)
                    let e = rng.pick(&rec_mr.events).clone();
                    let errno = *rng.pick(&[libc::EIO, libc::ENOSPC, libc::EACCES, libc::EMFILE, libc::EINTR, libc::ENOENT]);
                    if e.call == "close" || e.call == "mark" {
                        continue;
                    }
                    planned.push(Planned {
                        trial: Trial { name: format!("F{}e{}", e.k, errno), runs: vec![RunCfg { plan: format!("{}:F:{}", e.k, errno), gate: "MR".into(), clock: clock0 }, RunCfg { plan: String::new(), gate: "M".into(), clock: clock_b }], prelock: None },
                        sig: vec![format!("ERRNO{}@{}:{}", errno, e.call, site_of(&e))],
                        exhaustive_part: false,
                    });
                }
                2 => {
                    let ws: Vec<&LogEvent> = rec_m.events.iter().filter(|e| e.call.contains("write") && e.len >= 2).collect();
                    if ws.is_empty() {
                        continue;
                    }
                    let e = (*rng.pick(&ws)).clone();
                    let n = rng.range(1, e.len - 1);
                    planned.push(Planned {
                        trial: Trial { name: format!("S{}n{}", e.k, n), runs: vec![RunCfg { plan: format!("{}:S:{}", e.k, n), gate: "M".into(), clock: clock0 }, RunCfg { plan: String::new(), gate: "M".into(), clock: clock_b }], prelock: None },
                        sig: vec![format!("SHORT@{}:{}", e.call, site_of(&e))],
                        exhaustive_part: false,
                    });
                }
                _ => {
                    // two crashes in a row, then a clean run
                    let e1 = rng.pick(&rec_m.events).clone();
                    let k2 = rng.range(1, rec_m.events.len());
                    planned.push(Planned {
                        trial: Trial {
                            name: format!("K{}K{}", e1.k, k2),
                            runs: vec![
                                RunCfg { plan: format!("{}:K", e1.k), gate: "M".into(), clock: clock0 },
                                RunCfg { plan: format!("{k2}:K"), gate: "M".into(), clock: clock_b },
                                RunCfg { plan: String::new(), gate: "M".into(), clock: if rng.chance(1, 2) { clock_b } else { base_clock(&scn, 1000 + j as u64) } },
                            ],
                            prelock: None,
                        },
                        sig: vec![format!("KILL@{}:{}", e1.call, site_of(&e1)), "KILL@second-run".into()],
                        exhaustive_part: false,
                    });
                }
            }
        }
        if two_only {
            planned.clear();
        }
        if let Some(prefix) = cli.get("only") {
            // development aid: only the trials whose name starts with this (e.g. --only P)
            planned.retain(|p| p.trial.name.starts_with(prefix));
        }
        // ---- execute
        let results = par_map(workers, planned.len(), |i| run_trial(&scn, &planned[i].trial, &base.join(format!("w{si}-{i}")), false));
        // determinism of verdicts: re-run a sample of trials and compare
        let recheck: Vec<usize> = (0..planned.len()).step_by((planned.len() / 12).max(1)).collect();
        let again = par_map(workers, recheck.len(), |j| run_trial(&scn, &planned[recheck[j]].trial, &base.join(format!("d{si}-{j}")), false));
        for (j, &i) in recheck.iter().enumerate() {
            det_checked += 1;
            let norm = |r: &TrialResult| (r.violation.as_ref().map(|v| v.0.clone()), r.outcomes.clone());
            if norm(&again[j]) != norm(&results[i]) {
                harness_error(&format!("C30 trial {} of scenario {si} is not deterministic: {:?} vs {:?}", planned[i].trial.name, norm(&results[i]), norm(&again[j])));
            }
        }
        for (p, r) in planned.iter().zip(results.iter()) {
            total_trials += 1;
            for f in &r.fired {
                *fired_by_kind.entry(f.clone()).or_insert(0) += 1;
            }
            if !r.fired.is_empty() {
                for s in &p.sig {
                    *fired_by_site.entry(s.clone()).or_insert(0) += 1;
                }
                distinct.insert(format!("{si}/{}", p.trial.name));
            }
            for pr in &r.probes {
                *probes.entry(pr.clone()).or_insert(0) += 1;
            }
            // window probes
            if r.fired.iter().any(|k| k == "K" || k == "T") {
                for s in &p.sig {
                    let pr = if s.contains(":tmp-clone") { "crash_during_tmp_clone" } else if s.contains(":checkout") { "crash_during_checkout" } else if s.contains(":forc-index") { "crash_at_forc_index" } else if s.contains(":cons-lock") { "crash_writing_Forc.lock" } else if s.contains(":advisory-lock") { "crash_at_advisory_lock" } else { "crash_elsewhere" };
                    *probes.entry(pr.into()).or_insert(0) += 1;
                }
            }
            if samples.len() < 6 && !r.fired.is_empty() && (total_trials % 97 == 1 || r.violation.is_some()) {
                samples.push(json!({"scenario": si, "trial": p.trial.name, "plans": p.trial.runs.iter().map(|r| r.plan.clone()).collect::<Vec<_>>(), "signature": p.sig, "outcomes": r.outcomes, "violation": r.violation.as_ref().map(|v| format!("{}: {}", v.0, v.1))}));
            }
            if let Some((clause, detail)) = &r.violation {
                ev.violations += 1;
                // one replay file per (clause, signature) class per scenario; the smallest scenario comes first
                let key = format!("{clause}|{}", p.sig.join(","));
                if !seen_violation_keys.insert(key) {
                    continue;
                }
                let minimal = minimise(&scn, p, clause, &base.join(format!("min{si}")));
                let v = Violation {
                    clause: clause.clone(),
                    detail: detail.clone(),
                    signature: minimal.1.clone(),
                    replay: json!({"scenario": scn.descr, "trial": minimal.0.name, "prelock": minimal.0.prelock, "runs": minimal.0.runs.iter().map(|r| json!({"plan": r.plan, "gate": r.gate, "clock": r.clock})).collect::<Vec<_>>(),
                        "events_at_fault": fault_events(&recs, &minimal.0)}),
                };
                // confirm in a fresh slot before reporting
                let again = run_trial(&scn, &minimal.0, &base.join(format!("confirm{si}")), false);
                if again.violation.as_ref().map(|x| &x.0) != Some(clause) {
                    harness_error(&format!("C30: minimised trial {} does not reproduce clause {clause}", minimal.0.name));
                }
                report.add(&kf, &v, "/verif/replays", &format!("{}-{}-{}", cli.seed, si, minimal.0.name));
            }
        }
        // ---- two concurrent builds over one cache, in lock-step (c30two.rs)
        if n_two > 0 {
            let (n, viols, pr, hashes) = crate::c30two::batch(&scn, &base, derive(cli.seed, "two", si as u64), n_two, workers);
            total_trials += n;
            two_runs += n;
            for h in hashes {
                distinct.insert(format!("{si}/two/{}", h.split(':').nth(1).unwrap_or(&h)));
            }
            for (k, v) in pr {
                *probes.entry(k).or_insert(0) += v;
            }
            for (clause, detail, rp) in viols {
                ev.violations += 1;
                let key = format!("{clause}|two-builds");
                if !seen_violation_keys.insert(key) {
                    continue;
                }
                let v = Violation { clause: clause.clone(), detail, signature: vec!["two-builds".into()], replay: rp };
                report.add(&kf, &v, "/verif/replays", &format!("{}-{}-two", cli.seed, si));
            }
        }
        let _ = std::fs::remove_dir_all(&base);
        std::fs::create_dir_all(&base).ok();
    }
    ev.set("evaluations", json!(total_trials));
    ev.set("two_concurrent_builds_runs", json!(two_runs));
    ev.set("distinct_nontrivial", json!(distinct.len()));
    ev.set("rule", json!("one evaluation = one fault sequence against a fresh $HOME: faulted `forc build`(s) of a generated consumer with a file:// git dependency, then a fault-free build, then the tree/exit/lock oracles. Exhaustive part: KILL before every mutating libc call of the main thread and TORN (half the bytes, then death) at every write, per scenario. Sampled part: errno/short-write/two-crash sequences, persistent faults (E: a window of failing calls; P: one path of the checkout refused for the whole run). Two-builds part: one evaluation = one seeded lock-step interleaving of two real builds over one cache (every file-system call of either main thread is a scheduling point; one build killed in a third of the runs), then a fault-free build. Distinct+non-trivial = distinct (scenario, fault plan) whose fault actually fired (the shim logged it) + distinct two-build schedules (hash of the run-length encoded decision list)."));
    ev.set("exhaustive", json!(true));
    ev.set("exhaustive_scope", json!("per scenario: every KILL point and every TORN point at libc-call granularity of the main thread; everything else is sampled"));
    ev.set("crash_and_torn_points_enumerated", json!(crash_points_total));
    ev.set("scenarios", json!(scn_descr));
    ev.set("faults_fired_by_kind", json!(fired_by_kind));
    ev.set("faults_fired_by_site", json!(fired_by_site));
    probes.insert("files_differing_only_in_line_endings_after_errno".into(), LINE_ENDING_ONLY.load(std::sync::atomic::Ordering::SeqCst));
    ev.set("probes", json!(probes));
    ev.set("samples", json!(samples));
    ev.set("determinism_selfcheck", json!({"pairs_compared": det_checked, "divergences": 0}));
    ev.set("calls_from_other_threads_not_gated", json!(other_thread_calls));
    ev.set("components", json!({"real": ["forc (cli, forc-pkg fetch/pin/lock, sway-core)", "libgit2", "glibc", "kernel tmpfs"], "stub": ["entropy, clock and pid values (seeded)", "3-line main() of forc (vforc)"]}));
    ev.set("known_findings_seen", json!(report.known_hits.keys().collect::<Vec<_>>()));
    ev.assumptions = vec![
        "crash = process death at a libc call boundary or inside one write; everything the kernel accepted survives (no power-loss model)".into(),
        "only the main thread's calls are fault points; other threads' calls are counted".into(),
        "two concurrent builds: the advisory flock is not an event at the libc seam; whether a build waits in it is observed (/proc/<pid>/syscall, /proc/locks), and the two builds are scheduled at libc file-system calls of their main threads only".into(),
    ];
    ev.write("/verif/evidence");
    cleanup_scratch();
    report.finish()
}

fn fault_events(recs: &BTreeMap<&str, ShimLog>, t: &Trial) -> Vec<String> {
    let mut out = vec![];
    if let Some(r) = t.runs.first() {
        if let Some(k) = r.plan.split(':').next().and_then(|s| s.parse::<usize>().ok()) {
            if let Some(log) = recs.get(r.gate.as_str()) {
                for e in log.events.iter().filter(|e| e.k + 2 >= k && e.k <= k + 1) {
                    out.push(format!("{}{} {} {} {}", if e.k == k { ">> " } else { "   " }, e.k, e.call, e.arg.rsplit("/home/").next().unwrap_or(&e.arg), e.len));
                }
            }
        }
    }
    out
}

/// Minimise a failing trial: drop faulted runs one at a time while the same clause persists.
fn minimise(scn: &Scenario, p: &Planned, clause: &str, slot: &Path) -> (Trial, Vec<String>) {
    let mut best = p.trial.clone();
    let mut sig = p.sig.clone();
    if best.runs.len() > 2 {
        for drop in 0..best.runs.len() - 1 {
            let mut cand = best.clone();
            cand.runs.remove(drop);
            cand.name = format!("{}-min", best.name);
            let r = run_trial(scn, &cand, slot, false);
            if r.violation.as_ref().map(|v| v.0.as_str()) == Some(clause) {
                best = cand;
                if drop == 0 {
                    sig = vec!["KILL@second-run".into()];
                } else {
                    sig.retain(|s| s != "KILL@second-run");
                }
                break;
            }
        }
    }
    (best, sig)
}

fn replay(path: &str, base: &Path) -> i32 {
    let txt = std::fs::read_to_string(path).unwrap_or_else(|e| harness_error(&format!("cannot read replay {path}: {e}")));
    let v: Value = serde_json::from_str(&txt).unwrap_or_else(|e| harness_error(&format!("bad replay json: {e}")));
    let seed = v["scenario"]["scenario_seed"].as_u64().unwrap_or_else(|| harness_error("replay: no scenario_seed"));
    let idx = v["scenario"]["scenario_idx"].as_u64().unwrap_or(0) as usize;
    let scn = make_scenario(base, seed, idx);
    if v["mode"].as_str() == Some("two-builds") {
        let got = crate::c30two::replay(&scn, base, &v);
        cleanup_scratch();
        let want = v["clause"].as_str().unwrap_or("");
        return match got {
            Some((c, d)) if c == want => {
                println!("reproduced clause {c}: {d}");
                println!("VIOLATION property={PROP} replay={path}");
                1
            }
            Some((c, d)) => {
                println!("replay produced a different clause {c} (expected {want}): {d}");
                2
            }
            None => {
                println!("replay did not reproduce (no violation)");
                0
            }
        };
    }
    let runs: Vec<RunCfg> = v["runs"].as_array().cloned().unwrap_or_default().iter().map(|r| RunCfg { plan: r["plan"].as_str().unwrap_or("").into(), gate: r["gate"].as_str().unwrap_or("M").into(), clock: r["clock"].as_i64().unwrap_or(0) }).collect();
    let t = Trial { name: "replay".into(), runs, prelock: v["prelock"].as_str().map(String::from) };
    let r = run_trial(&scn, &t, &base.join("replay"), true);
    for (i, e) in r.stderrs.iter().enumerate() {
        println!("---- output of run {i}:\n{e}");
    }
    let want = v["clause"].as_str().unwrap_or("");
    println!("replay outcomes: {:?}", r.outcomes);
    cleanup_scratch();
    match r.violation {
        Some((c, d)) if c == want => {
            println!("reproduced clause {c}: {d}");
            println!("VIOLATION property={PROP} replay={path}");
            1
        }
        Some((c, d)) => {
            println!("replay produced a different clause {c} (expected {want}): {d}");
            2
        }
        None => {
            println!("replay did not reproduce (no violation)");
            0
        }
    }
}

pub fn debug_dump(a: &str, b: &str) {
    let _ = std::fs::write("/tmp/c30-det-a.txt", a);
    let _ = std::fs::write("/tmp/c30-det-b.txt", b);
}

/// Path components derived from hashing the (slot-specific) manifest path — fetch ids, lock-file names —
/// legitimately differ between slots; mask hex runs of 14-16 digits before comparing event logs.
pub fn mask_hashes(s: &str) -> String {
    let b = s.as_bytes();
    let mut out = String::new();
    let mut i = 0;
    while i < b.len() {
        if b[i].is_ascii_hexdigit() {
            let mut j = i;
            while j < b.len() && b[j].is_ascii_hexdigit() {
                j += 1;
            }
            if (14..=16).contains(&(j - i)) {
                out.push('#');
            } else {
                out.push_str(&s[i..j]);
            }
            i = j;
        } else {
            out.push(b[i] as char);
            i += 1;
        }
    }
    out
}

pub fn strip_ansi(s: &str) -> String {
    let mut out = String::new();
    let mut it = s.chars().peekable();
    while let Some(c) = it.next() {
        if c == '\u{1b}' {
            for d in it.by_ref() {
                if d.is_ascii_alphabetic() {
                    break;
                }
            }
        } else {
            out.push(c);
        }
    }
    out
}
