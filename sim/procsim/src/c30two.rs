//! C30, two concurrent builds over one forc cache (lock-step). DESIGN.md §13.2 (C30, later extensions).
//!
//! Two real `forc build` processes with separate consumer packages, the same `$HOME` and the same git
//! dependency run in lock-step: every libc file-system call (reads included) of either process is a
//! scheduling point. forc serializes fetches with an advisory `flock` that is invisible at the libc seam;
//! whether a process blocks in it is *observed* (the kernel reports syscall 73) and the process is left alone
//! until the other one lets go. Oracle: a build that was not killed must succeed (it must never trip over a
//! checkout the other build is still writing, or is writing again), and afterwards a fresh build finds the
//! complete checkout.
use crate::c30::*;
use crate::launch::*;
use serde_json::{json, Value};
use simcore::*;
use std::collections::BTreeMap;
use std::os::fd::RawFd;
use std::path::Path;
use std::process::{Child, Stdio};

#[derive(Clone, Debug, PartialEq)]
pub struct Dec {
    pub proc: usize,
    pub kill: bool,
}

pub struct TwoResult {
    pub decisions: Vec<Dec>,
    pub steps: usize,
    pub exit: Vec<Option<i32>>,
    pub killed: Vec<bool>,
    pub stderr: Vec<String>,
    pub violation: Option<(String, String)>,
    pub flock_blocks: usize,
    pub trace: Vec<String>,
    pub unblocked: usize,
    pub infeasible: bool,
    pub rewrote_completed: bool,
}

struct P {
    child: Child,
    sock: RawFd,
    pending: Option<String>,
    blocked: bool,
    want: Option<(String, bool)>,
    exited: bool,
    killed: bool,
}

/// (checkout directory "name/commit", is the index file) of a request that touches a checkout
fn checkout_key(req: &str) -> Option<(String, bool)> {
    let at = req.find("/git/checkouts/")?;
    let rest = &req[at + "/git/checkouts/".len()..];
    let rest = rest.split_whitespace().next().unwrap_or("");
    let mut it = rest.split('/');
    let name = it.next()?;
    let commit = it.next()?;
    if name == "tmp" || commit.is_empty() {
        return None;
    }
    let inside: Vec<&str> = it.collect();
    if inside.is_empty() {
        return None; // the checkout directory itself (created, or removed before a re-fetch)
    }
    Some((format!("{name}/{commit}"), inside == [".forc_index"]))
}

enum Wait {
    Req(String),
    Exited,
    /// waits for an advisory lock on (device:inode); exclusive?
    Blocked(String, bool),
}

fn wait_state(p: &mut P) -> Wait {
    let pid = p.child.id();
    for _ in 0..60_000 {
        let mut pfd = libc::pollfd { fd: p.sock, events: libc::POLLIN, revents: 0 };
        let n = unsafe { libc::poll(&mut pfd, 1, 2) };
        if n > 0 {
            let mut buf = [0u8; 900];
            let r = unsafe { libc::recv(p.sock, buf.as_mut_ptr() as *mut _, buf.len(), 0) };
            if r <= 0 {
                return Wait::Exited;
            }
            return Wait::Req(String::from_utf8_lossy(&buf[..r as usize]).to_string());
        }
        if let Ok(s) = std::fs::read_to_string(format!("/proc/{pid}/syscall")) {
            if s.starts_with("73 ") {
                if let Some((ino, excl)) = waits_for_flock(pid) {
                    return Wait::Blocked(ino, excl);
                }
            }
        }
    }
    harness_error("C30 two-fetchers: a process neither sent a request, exited, nor blocked in flock within 120 s")
}

/// The kernel's own list of lock waiters (`/proc/locks`, "-> FLOCK ADVISORY WRITE <pid> <dev:inode> …"): a process
/// that has been woken is no longer on it even while it is still inside the system call, so "blocked" is never
/// reported for a process that is about to continue.
fn waits_for_flock(pid: u32) -> Option<(String, bool)> {
    let s = std::fs::read_to_string("/proc/locks").ok()?;
    let me = pid.to_string();
    for l in s.lines() {
        let f: Vec<&str> = l.split_whitespace().collect();
        if f.len() >= 7 && f[1] == "->" && f[2] == "FLOCK" && f[5] == me {
            return Some((f[6].to_string(), f[4] == "WRITE"));
        }
    }
    None
}

/// Could a (stopped) waiter for `ino` get its lock now? Only locks of other processes count.
fn lock_is_free(ino: &str, excl: bool, pid: u32) -> bool {
    let Ok(s) = std::fs::read_to_string("/proc/locks") else { return true };
    let me = pid.to_string();
    for l in s.lines() {
        let f: Vec<&str> = l.split_whitespace().collect();
        if f.len() >= 6 && f[1] == "FLOCK" && f[5] == ino && f[4] != me && (excl || f[3] == "WRITE") {
            return false;
        }
    }
    true
}

/// A build that waits for the advisory lock is stopped (SIGSTOP) for as long as the lock is taken: were it left
/// in the kernel's wait queue, an unlock/lock pair of the holder between two of its libc calls would be a race
/// between the two processes that no seed decides. Stopped, it is continued exactly when `/proc/locks` shows the
/// lock free while every other build stands at a gate.
fn stop(pid: u32) {
    unsafe { libc::kill(pid as i32, libc::SIGSTOP) };
    for _ in 0..20_000 {
        if let Ok(st) = std::fs::read_to_string(format!("/proc/{pid}/stat")) {
            if st.rsplit(')').next().map(|r| r.trim_start().starts_with('T')).unwrap_or(false) {
                return;
            }
        }
        std::thread::sleep(std::time::Duration::from_micros(100));
    }
    harness_error("C30 two-builds: a process did not stop within 2 s of SIGSTOP")
}

/// "let `proc` run for up to `n` of its calls (fewer if it blocks or exits first); `kill`: its last one is answered
/// with death instead of permission". A list of segments is a schedule; once it is used up the lowest-numbered
/// runnable build continues. Every list is therefore a complete, feasible schedule, which is what lets ddmin drop
/// segments.
#[derive(Clone, Debug, PartialEq)]
pub struct Seg {
    pub proc: usize,
    pub n: usize,
    pub kill: bool,
}

pub fn segments(d: &[Dec]) -> Vec<Seg> {
    let mut out: Vec<Seg> = vec![];
    for x in d {
        match out.last_mut() {
            Some(l) if l.proc == x.proc && !l.kill => {
                l.n += 1;
                l.kill = x.kill;
            }
            _ => out.push(Seg { proc: x.proc, n: 1, kill: x.kill }),
        }
    }
    out
}

pub enum Mode<'a> {
    Seeded { rng: Rng, stick: u64, follow_unblocked: bool, kill_at: Option<(usize, usize)> },
    Segs { list: &'a [Seg], idx: usize, used: usize },
}

pub fn run_two(scn: &Scenario, slot: &Path, mut mode: Mode) -> TwoResult {
    let _ = std::fs::remove_dir_all(slot);
    let home = slot.join("home");
    std::fs::create_dir_all(&home).unwrap();
    let mut procs: Vec<P> = vec![];
    let mut cons_dirs = vec![];
    for i in 0..2 {
        let cons = slot.join(format!("cons{i}"));
        write_file(&cons.join("Forc.toml"), scn.cons_toml.as_bytes());
        write_file(&cons.join("src/lib.sw"), scn.cons_lib.as_bytes());
        let mut fds = [0i32; 2];
        if unsafe { libc::socketpair(libc::AF_UNIX, libc::SOCK_SEQPACKET | libc::SOCK_CLOEXEC, 0, fds.as_mut_ptr()) } != 0 {
            harness_error("socketpair failed");
        }
        let spec = Spec {
            exe: format!("{}/vforc", tools_dir()),
            args: vec!["build".into()],
            cwd: cons.clone(),
            home: home.clone(),
            extra_env: BTreeMap::new(),
            shim: ShimCfg {
                exe_names: "vforc".into(),
                seed: Some(derive(scn.seed, "entropy", 0)),
                pid: Some(4242 + i as u64),
                clock_ns: Some(1_000_000_000_000 + i as i64 * 7_000_000),
                roots: vec![home.display().to_string(), cons.display().to_string()],
                gate: "MR".into(),
                ctl_fd: Some(fds[1]),
                ..Default::default()
            },
        };
        let mut c = command(&spec);
        c.stdin(Stdio::null()).stdout(Stdio::null()).stderr(Stdio::piped());
        let child = c.spawn().unwrap_or_else(|e| harness_error(&format!("cannot spawn vforc: {e}")));
        unsafe { libc::close(fds[1]) };
        procs.push(P { child, sock: fds[0], pending: None, blocked: false, want: None, exited: false, killed: false });
        cons_dirs.push(cons);
    }
    let absorb = |p: &mut P| match wait_state(p) {
        Wait::Req(r) => {
            p.pending = Some(r);
            p.blocked = false;
        }
        Wait::Exited => {
            // the control socket closes during exit, the advisory locks of the process a little later (deferred
            // fput): wait for the process to be gone before looking at who is still blocked
            let _ = p.child.wait();
            p.pending = None;
            p.exited = true;
            p.blocked = false;
        }
        Wait::Blocked(ino, excl) => {
            p.pending = None;
            p.blocked = true;
            p.want = Some((ino, excl));
            stop(p.child.id());
        }
    };
    for p in procs.iter_mut() {
        absorb(p);
    }
    let mut res = TwoResult { decisions: vec![], steps: 0, exit: vec![], killed: vec![], stderr: vec![], violation: None, flock_blocks: 0, trace: vec![], unblocked: 0, infeasible: false, rewrote_completed: false };
    let mut current = 0usize;
    let mut just_unblocked: Option<usize> = None;
    let mut boost: Option<(usize, usize)> = None;
    let mut completed_by: BTreeMap<String, usize> = BTreeMap::new();
    let mut w_violation: Option<String> = None;
    loop {
        let enabled: Vec<usize> = (0..2).filter(|&i| !procs[i].exited && procs[i].pending.is_some()).collect();
        if enabled.is_empty() {
            if procs.iter().any(|p| p.blocked && !p.exited) && procs.iter().all(|p| p.exited || p.blocked) {
                res.violation = Some(("L".into(), "both builds are blocked on the advisory lock (or one is blocked on a lock nobody will release)".into()));
            }
            break;
        }
        if res.steps > 40_000 {
            res.violation = Some(("L".into(), "two concurrent builds did not finish within 40 000 scheduling steps".into()));
            break;
        }
        let (pi, kill) = match &mut mode {
            Mode::Seeded { rng, stick, follow_unblocked, kill_at } => {
                // the moment a build gets the advisory lock the other one has just released is where a missing
                // re-check or a too early release shows: some policies hand the processor to the build that was waiting
                if *follow_unblocked {
                    if let Some(u) = just_unblocked {
                        boost = Some((u, 50 + rng.below(1500)));
                    }
                }
                let boosted = match &mut boost {
                    Some((u, left)) if *left > 0 && enabled.contains(u) => {
                        *left -= 1;
                        Some(*u)
                    }
                    _ => None,
                };
                let pi = if let Some(u) = boosted {
                    u
                } else if enabled.contains(&current) && rng.chance(*stick, 1000) {
                    current
                } else {
                    enabled[rng.below(enabled.len())]
                };
                let kill = matches!(kill_at, Some((v, at)) if *v == pi && *at == res.steps);
                (pi, kill)
            }
            Mode::Segs { list, idx, used } => {
                let mut pick = None;
                while *idx < list.len() {
                    let sg = &list[*idx];
                    if *used < sg.n && enabled.contains(&sg.proc) {
                        *used += 1;
                        pick = Some((sg.proc, sg.kill && *used == sg.n));
                        break;
                    }
                    *idx += 1;
                    *used = 0;
                }
                pick.unwrap_or((enabled[0], false))
            }
        };
        current = pi;
        res.steps += 1;
        res.decisions.push(Dec { proc: pi, kill });
        let req = procs[pi].pending.take().unwrap();
        // W: a build mutates a checkout that the *other*, still running build has completed (it wrote the index file
        // there, the last step of a fetch) and is entitled to compile from
        if let Some((key, is_index)) = checkout_key(&req) {
            if req.split_whitespace().nth(1) == Some("M") {
                if is_index {
                    completed_by.entry(key).or_insert(pi);
                } else if let Some(&j) = completed_by.get(&key) {
                    if j != pi && !procs[j].exited && w_violation.is_none() {
                        w_violation = Some(format!("build {pi} modifies the checkout {key} ({}) after build {j} completed that checkout and while build {j} is still running", req.split_whitespace().skip(2).take(2).collect::<Vec<_>>().join(" ").replace(&slot.display().to_string(), "$SLOT")));
                    }
                }
            }
        }
        if let Ok(t) = std::env::var("C30TWO_TRACE") {
            use std::io::Write;
            if let Ok(mut f) = std::fs::OpenOptions::new().create(true).append(true).open(&t) {
                let line = format!("{} P{pi} {} [blocked {:?} pending {:?}]\n", slot.file_name().unwrap().to_string_lossy(), req.replace(&slot.display().to_string(), "$S"), procs.iter().map(|p| p.blocked).collect::<Vec<_>>(), procs.iter().map(|p| p.pending.is_some()).collect::<Vec<_>>());
                let _ = f.write_all(line.as_bytes());
            }
        }
        if std::env::var("C30TWO_DEBUG").is_ok() {
            res.trace.push(format!("P{pi} {} [blocked {:?} pending {:?}]", req.replace(&slot.display().to_string(), "$S"), procs.iter().map(|p| p.blocked).collect::<Vec<_>>(), procs.iter().map(|p| p.pending.is_some()).collect::<Vec<_>>()));
        }
        let msg: &[u8] = if kill { b"K" } else { b"G" };
        unsafe { libc::send(procs[pi].sock, msg.as_ptr() as *const _, msg.len(), libc::MSG_NOSIGNAL) };
        if kill {
            let _ = procs[pi].child.wait();
            procs[pi].exited = true;
            procs[pi].killed = true;
        } else {
            absorb(&mut procs[pi]);
            if procs[pi].blocked {
                res.flock_blocks += 1;
            }
        }
        // the other process may have been released from flock by what just happened
        let other = 1 - pi;
        just_unblocked = None;
        let free = match &procs[other].want {
            Some((ino, excl)) => lock_is_free(ino, *excl, procs[other].child.id()),
            None => true,
        };
        if procs[other].blocked && !procs[other].exited && free {
            unsafe { libc::kill(procs[other].child.id() as i32, libc::SIGCONT) };
            absorb(&mut procs[other]);
            if !procs[other].blocked {
                just_unblocked = Some(other);
                res.unblocked += 1;
            }
        }
    }
    for p in procs.iter_mut() {
        res.killed.push(p.killed);
        let mut err = String::new();
        if p.exited && !p.killed {
            let st = p.child.wait().ok();
            res.exit.push(st.and_then(|s| s.code()));
        } else {
            let _ = p.child.kill();
            let _ = p.child.wait();
            res.exit.push(None);
        }
        if let Some(mut se) = p.child.stderr.take() {
            let _ = std::io::Read::read_to_string(&mut se, &mut err);
        }
        res.stderr.push(strip_ansi(&err));
        unsafe { libc::close(p.sock) };
    }
    res.rewrote_completed = w_violation.is_some();
    let mut failed_build = None;
    for i in 0..2 {
        if !res.killed[i] && res.exit[i] != Some(0) && failed_build.is_none() {
            let first = res.stderr[i].lines().find(|l| l.contains("rror") && l.trim().len() > 8).unwrap_or("").trim().replace(&slot.display().to_string(), "$SLOT");
            failed_build = Some(format!("build {i}, which was neither killed nor given any fault, failed while the other build of the same dependency ran beside it (exit {:?}): {}", res.exit[i], first.chars().take(200).collect::<String>()));
        }
    }
    if res.violation.is_none() {
        // W is the cause and comes first in time; a build that then really fails is named with it
        match (w_violation, failed_build) {
            (Some(w), Some(f)) => res.violation = Some(("W".into(), format!("{w}; {f}"))),
            (Some(w), None) => res.violation = Some(("W".into(), w)),
            (None, Some(f)) => res.violation = Some(("R2c".into(), f)),
            (None, None) => {}
        }
    }
    if res.violation.is_none() && !res.infeasible {
        // afterwards: a fresh, fault-free build in the first consumer
        let t = Trial { name: "after".into(), runs: vec![RunCfg { plan: String::new(), gate: "M".into(), clock: 1_000_000_000_000 }], prelock: None };
        let after_slot = slot.join("after");
        let _ = std::fs::create_dir_all(&after_slot);
        // reuse the shared home: run the trial by hand (run_trial wipes its slot)
        let spec = Spec {
            exe: format!("{}/vforc", tools_dir()),
            args: vec!["build".into()],
            cwd: cons_dirs[0].clone(),
            home: home.clone(),
            extra_env: BTreeMap::new(),
            shim: ShimCfg { exe_names: "vforc".into(), seed: Some(derive(scn.seed, "entropy", 0)), pid: Some(4242), clock_ns: Some(t.runs[0].clock), ..Default::default() },
        };
        let o = run_free(&spec, std::time::Duration::from_secs(120));
        if o.code != Some(0) {
            res.violation = Some(("R2".into(), format!("after two concurrent builds a fault-free build fails: {}", strip_ansi(&o.stderr).lines().find(|l| l.contains("rror")).unwrap_or("").trim().chars().take(200).collect::<String>())));
        } else if let Some((c, d)) = judge_after(scn, &home, &cons_dirs[0]) {
            res.violation = Some((c, d));
        }
    }
    let _ = std::fs::remove_dir_all(slot);
    res
}

fn judge_after(scn: &Scenario, home: &Path, cons: &Path) -> Option<(String, String)> {
    crate::c30::judge_tree(scn, home, cons)
}

/// The sub-batch run by `simctl c30`: returns (runs, violations as (clause, detail, replay json), probes).
pub fn batch(scn: &Scenario, base: &Path, seed: u64, n: usize, workers: usize) -> (usize, Vec<(String, String, Value)>, BTreeMap<String, usize>, Vec<String>) {
    let results = par_map(workers, n, |i| {
        let sub = derive(seed, "c30-two", i as u64);
        let mut r = Rng::new(sub);
        let stick = *r.pick(&[0u64, 500, 900, 990, 999]);
        let follow_unblocked = r.chance(1, 2);
        let kill_at = if r.chance(1, 3) { Some((r.below(2), r.below(2500))) } else { None };
        let res = run_two(scn, &base.join(format!("two{i}")), Mode::Seeded { rng: Rng::new(derive(sub, "choices", 0)), stick, follow_unblocked, kill_at });
        (i, sub, res)
    });
    let mut probes: BTreeMap<String, usize> = BTreeMap::new();
    let mut viol = vec![];
    let mut hashes: Vec<String> = vec![];
    for (i, sub, res) in results {
        *probes.entry("two_builds_runs".into()).or_insert(0) += 1;
        *probes.entry("two_builds_scheduling_steps".into()).or_insert(0) += res.steps;
        *probes.entry("two_builds_blocked_in_flock".into()).or_insert(0) += res.flock_blocks;
        *probes.entry("two_builds_released_from_flock_while_other_still_running".into()).or_insert(0) += res.unblocked;
        hashes.push(format!("{i}:{:016x}", fnv64(format!("{:?}", segments(&res.decisions)).as_bytes())));
        if res.killed.iter().any(|k| *k) {
            *probes.entry("two_builds_one_killed".into()).or_insert(0) += 1;
        }
        if i % 6 == 0 && res.violation.is_none() {
            // determinism: the recorded schedule, forced, must give the same run
            let full = segments(&res.decisions);
            let again = run_two(scn, &base.join(format!("two{i}d")), Mode::Segs { list: &full, idx: 0, used: 0 });
            *probes.entry("two_builds_replays_compared".into()).or_insert(0) += 1;
            if again.decisions != res.decisions || again.exit != res.exit || again.violation.is_some() {
                *probes.entry("two_builds_replays_diverged".into()).or_insert(0) += 1;
                if std::env::var("C30TWO_DEBUG").is_ok() {
                    let at = res.decisions.iter().zip(again.decisions.iter()).position(|(a, b)| a != b);
                    eprintln!("DIVERGED run {i}: len {} vs {}, first diff at {:?}, exit {:?} vs {:?}, killed {:?} vs {:?}, viol {:?}", res.decisions.len(), again.decisions.len(), at, res.exit, again.exit, res.killed, again.killed, again.violation);
                    if let Some(a) = at {
                        for k in a.saturating_sub(8)..(a + 2).min(res.trace.len()).min(again.trace.len()) {
                            eprintln!("   {k} orig  {}\n   {k} again {}", res.trace[k], again.trace[k]);
                        }
                        eprintln!("  orig {:?}\n  again {:?}", &res.decisions[a.saturating_sub(3)..(a + 3).min(res.decisions.len())], &again.decisions[a.saturating_sub(3)..(a + 3).min(again.decisions.len())]);
                    }
                }
            }
        }
        if let Some((c, d)) = &res.violation {
            let full = segments(&res.decisions);
            let mut tests = 0usize;
            let mut still = |cand: &[Seg], tests: &mut usize| {
                *tests += 1;
                let r = run_two(scn, &base.join(format!("two{i}m")), Mode::Segs { list: cand, idx: 0, used: 0 });
                r.violation.as_ref().map(|v| &v.0) == Some(c)
            };
            let serial = |part: &[Seg]| -> Vec<Seg> {
                let mut out = vec![];
                for p in 0..2 {
                    let n: usize = part.iter().filter(|x| x.proc == p).map(|x| x.n).sum();
                    if n > 0 {
                        out.push(Seg { proc: p, n, kill: part.iter().any(|x| x.proc == p && x.kill) });
                    }
                }
                out
            };
            // 1. the tail after the violation does not matter: shortest prefix of the schedule that still fails
            //    (what follows is the default continuation), by bisection
            let (mut lo, mut hi) = (0usize, full.len());
            while lo < hi && tests < 14 {
                let mid = (lo + hi) / 2;
                if still(&full[..mid], &mut tests) {
                    hi = mid;
                } else {
                    lo = mid + 1;
                }
            }
            let cut: Vec<Seg> = if hi < full.len() && still(&full[..hi], &mut tests) { full[..hi].to_vec() } else { full.clone() };
            // 2. the start is usually irrelevant too: longest prefix that can be serialized (build 0's steps, then
            //    build 1's), by bisection
            let (mut lo, mut hi) = (0usize, cut.len());
            let mut best = cut.clone();
            while lo < hi && tests < 30 {
                let mid = (lo + hi + 1) / 2;
                let mut cand = serial(&cut[..mid]);
                cand.extend_from_slice(&cut[mid..]);
                if cand.len() < best.len() && still(&cand, &mut tests) {
                    best = cand;
                    lo = mid;
                } else {
                    hi = mid - 1;
                }
            }
            // 3. drop segments
            let min = ddmin(best, 16, |cand| still(cand, &mut tests));
            // the reported schedule must reproduce in a fresh run; fall back to the recorded one
            let ok = |l: &[Seg]| run_two(scn, &base.join(format!("two{i}r")), Mode::Segs { list: l, idx: 0, used: 0 }).violation.as_ref().map(|v| &v.0) == Some(c);
            let (sched, exact) = if ok(&min) { (min, true) } else if ok(&full) { (full, true) } else { (full, false) };
            viol.push((c.clone(), d.clone(), json!({"mode": "two-builds", "scenario": scn.descr, "run": i, "sub_seed": sub, "steps_in_recorded_run": res.steps, "minimisation_tests": tests,
                "schedule": sched.iter().map(|s| json!([s.proc, s.n, if s.kill { "K" } else { "G" }])).collect::<Vec<_>>(), "replays_exactly": exact, "stderr": res.stderr})));
        }
    }
    if let Ok(t) = std::env::var("C30TWO_HASHES") {
        let _ = std::fs::write(t, hashes.join("\n"));
    }
    (n, viol, probes, hashes)
}

pub fn replay(scn: &Scenario, base: &Path, v: &Value) -> Option<(String, String)> {
    let list: Vec<Seg> = v["schedule"].as_array().cloned().unwrap_or_default().iter().map(|d| Seg { proc: d[0].as_u64().unwrap_or(0) as usize, n: d[1].as_u64().unwrap_or(0) as usize, kill: d[2].as_str() == Some("K") }).collect();
    let r = run_two(scn, &base.join("two-replay"), Mode::Segs { list: &list, idx: 0, used: 0 });
    for (i, e) in r.stderr.iter().enumerate() {
        println!("---- stderr of build {i} (exit {:?}, killed {}):\n{e}", r.exit[i], r.killed[i]);
    }
    r.violation
}
