//! simctl — engine A controller: `simctl <c15|c25|c30> [--tier …] [--seed …] [--replay …]`
mod c15;
mod c25;
mod c30;
mod c30two;
mod launch;

fn main() {
    let args: Vec<String> = std::env::args().skip(1).collect();
    if args.is_empty() {
        simcore::harness_error("usage: simctl <c15|c25|c30> [options]");
    }
    let cli = simcore::Cli::parse(&args[1..]);
    println!("VERIF_SEED={} tier={} check={}", cli.seed, cli.tier, args[0]);
    let code = match args[0].as_str() {
        "c30" => c30::main(&cli),
        "c25" => c25::main(&cli),
        "c15" => c15::main(&cli),
        other => simcore::harness_error(&format!("unknown check {other}")),
    };
    std::process::exit(code);
}
