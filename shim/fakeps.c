// fake `ps`: answers `ps -p <pid>` from the simulator's liveness table ($SIM_LIVE: one live pid per line).
// This is the seam forc_util::fs_locking::is_pid_active already has (Command::new("ps")).
#include <stdio.h>
#include <stdlib.h>
#include <string.h>
int main(int argc, char **argv) {
    const char *live = getenv("SIM_LIVE");
    const char *pid = 0;
    for (int i = 1; i < argc; i++)
        if (strcmp(argv[i], "-p") == 0 && i + 1 < argc) pid = argv[i + 1];
    printf("    PID TTY          TIME CMD\n");
    if (!live || !pid) return 1;
    FILE *f = fopen(live, "r");
    if (!f) return 1;
    char line[64];
    int found = 0;
    while (fgets(line, sizeof line, f)) {
        line[strcspn(line, "\r\n")] = 0;
        if (strcmp(line, pid) == 0) found = 1;
    }
    fclose(f);
    if (found) { printf("%7s ?        00:00:00 sim\n", pid); return 0; }
    return 1;
}
