// libsimshim.so — the libc seam of engine A (procsim). See DESIGN.md §3.
//
// Loaded with LD_PRELOAD into the processes under test. Inert unless SIMSHIM_* variables
// are present, and (when SIMSHIM_EXE is set) unless the executable's basename is listed.
//
//   SIMSHIM_EXE=a,b        only activate in executables with one of these basenames
//   SIMSHIM_SEED=<u64>     getrandom/getentropy//dev/urandom return KDF(seed) (same bytes every call)
//   SIMSHIM_PID=<n>        getpid() returns n
//   SIMSHIM_CLOCK=<ns>     clock_gettime & co return ns + per-thread-call-count * SIMSHIM_TICK (default 1000ns)
//   SIMSHIM_LAYOUT=<n>     constructor moves the program break and the mmap area by seed-derived amounts
//   SIMSHIM_ROOT=p1:p2     only file-system calls on paths under these prefixes are events
//   SIMSHIM_GATE=MR|M      which call classes are events (M mutating, R read-only); default M
//   SIMSHIM_LOG=<path>     append one line per event (free-run recording)
//   SIMSHIM_PLAN=k:K,k:T:n,k:F:errno,k:S:n   static fault plan on event indices (free-run)
//   SIMSHIM_CTL=<fd>       lock-step: send each event over this SOCK_SEQPACKET fd and obey the verdict
//
// Verdicts: G go | K die now (SIGKILL) | F <errno> fail without performing | S <n> short write of n bytes
//           | T <n> perform n bytes of the write then die.
// Only the main thread's calls are events; calls from other threads pass through and are counted
// (logged as "T ..." lines when SIMSHIM_LOG is set).
#define _GNU_SOURCE
#include <dirent.h>
#include <dlfcn.h>
#include <errno.h>
#include <fcntl.h>
#include <pthread.h>
#include <signal.h>
#include <spawn.h>
#include <stdarg.h>
#include <stdint.h>
#include <stdio.h>
#include <stdlib.h>
#include <string.h>
#include <sys/mman.h>
#include <sys/stat.h>
#include <sys/syscall.h>
#include <sys/time.h>
#include <sys/types.h>
#include <sys/uio.h>
#include <time.h>
#include <unistd.h>

// ---------------------------------------------------------------- raw syscalls (never re-enter the shim)
static long rsys(long n, long a, long b, long c, long d, long e, long f) {
    long ret;
    register long r10 __asm__("r10") = d;
    register long r8 __asm__("r8") = e;
    register long r9 __asm__("r9") = f;
    __asm__ volatile("syscall" : "=a"(ret) : "a"(n), "D"(a), "S"(b), "d"(c), "r"(r10), "r"(r8), "r"(r9) : "rcx", "r11", "memory");
    return ret;
}
#define RS1(n, a) rsys(n, (long)(a), 0, 0, 0, 0, 0)
#define RS2(n, a, b) rsys(n, (long)(a), (long)(b), 0, 0, 0, 0)
#define RS3(n, a, b, c) rsys(n, (long)(a), (long)(b), (long)(c), 0, 0, 0)

// ---------------------------------------------------------------- state
#define MAXFD 4096
static unsigned char tracked[MAXFD]; // 1 = opened by an event open under a root; 2 = /dev/urandom
#define FDPATH 200
static char fdpath[MAXFD][FDPATH]; // tail of the path each tracked fd was opened with
static void remember(int fd, const char *p) {
    if (fd < 0 || fd >= MAXFD || !p) return;
    size_t l = strlen(p);
    const char *q = l >= FDPATH ? p + (l - FDPATH + 1) : p;
    strncpy(fdpath[fd], q, FDPATH - 1);
    fdpath[fd][FDPATH - 1] = 0;
}
static int inited = 0, active = 0;
static int ctl = -1, logfd = -1;
static int have_seed = 0, have_clock = 0, gate_r = 0;
static uint64_t seed = 1;
static long simpid = 0;
static int64_t clock_base = 0, clock_tick = 1000;
static long evidx = 0;
static long real_pid = 0;
#define MAXROOT 8
static char roots[MAXROOT][256];
static int nroots = 0;
#define MAXPLAN 16
static struct { long k; char kind; long arg; } plan[MAXPLAN];
static int nplan = 0;
// plan kind 'E' (k:E:errno): a *persistent* failure — every event from k on, for SIMSHIM_REPEAT events (default 60),
// fails with errno (what a full disk or a dying device looks like; a single failed call is often retried away)
static long repeat_from = 0, repeat_n = 60, repeat_errno = 0;
// SIMSHIM_FAILPATH=<errno>:<substring>: every mutating call on a path containing the substring fails with errno, for
// the whole life of the process (a file the file system refuses: quota, permissions, a bad block under one file)
static char failpath[256];
static long failpath_errno = 0, failpath_fired = 0;
static __thread int64_t tl_clock_calls = 0;

static const char *envs(const char *k) { return getenv(k); }

static void shim_init(void) {
    if (inited) return;
    inited = 1;
    real_pid = RS1(SYS_getpid, 0);
    const char *exe = envs("SIMSHIM_EXE");
    if (exe) {
        char buf[512];
        long n = RS3(SYS_readlink, "/proc/self/exe", buf, sizeof buf - 1);
        if (n <= 0) return;
        buf[n] = 0;
        const char *base = strrchr(buf, '/');
        base = base ? base + 1 : buf;
        int ok = 0;
        size_t bl = strlen(base);
        const char *p = exe;
        while (*p) {
            const char *q = strchr(p, ',');
            size_t l = q ? (size_t)(q - p) : strlen(p);
            if (l == bl && strncmp(p, base, l) == 0) ok = 1;
            p += l;
            if (*p == ',') p++;
        }
        if (!ok) return;
    }
    const char *e;
    if ((e = envs("SIMSHIM_SEED"))) { seed = strtoull(e, 0, 10); have_seed = 1; }
    if ((e = envs("SIMSHIM_PID"))) simpid = atol(e);
    if ((e = envs("SIMSHIM_CLOCK"))) { clock_base = strtoll(e, 0, 10); have_clock = 1; }
    if ((e = envs("SIMSHIM_TICK"))) clock_tick = strtoll(e, 0, 10);
    if ((e = envs("SIMSHIM_GATE"))) gate_r = strchr(e, 'R') != 0;
    if ((e = envs("SIMSHIM_ROOT"))) {
        const char *p = e;
        while (*p && nroots < MAXROOT) {
            const char *q = strchr(p, ':');
            size_t l = q ? (size_t)(q - p) : strlen(p);
            if (l > 0 && l < 255) { memcpy(roots[nroots], p, l); roots[nroots][l] = 0; nroots++; }
            p += l;
            if (*p == ':') p++;
        }
    }
    if ((e = envs("SIMSHIM_LOG"))) logfd = (int)RS3(SYS_open, e, O_WRONLY | O_CREAT | O_APPEND | O_CLOEXEC, 0644);
    if ((e = envs("SIMSHIM_PLAN"))) {
        const char *p = e;
        while (*p && nplan < MAXPLAN) {
            char *end;
            long k = strtol(p, &end, 10);
            if (*end != ':') break;
            char kind = end[1];
            long arg = 0;
            p = end + 2;
            if (*p == ':') { arg = strtol(p + 1, &end, 10); p = end; }
            if (kind == 'E') { repeat_from = k; repeat_errno = arg; }
            else { plan[nplan].k = k; plan[nplan].kind = kind; plan[nplan].arg = arg; nplan++; }
            if (*p == ',') p++;
        }
    }
    if ((e = envs("SIMSHIM_REPEAT"))) repeat_n = atol(e);
    if ((e = envs("SIMSHIM_FAILPATH"))) {
        char *end;
        failpath_errno = strtol(e, &end, 10);
        if (*end == ':' && strlen(end + 1) < sizeof failpath) strcpy(failpath, end + 1); else failpath_errno = 0;
    }
    if ((e = envs("SIMSHIM_CTL"))) {
        int fd = atoi(e);
        if (RS2(SYS_fcntl, fd, F_GETFD) >= 0) { ctl = fd; RS3(SYS_fcntl, fd, F_SETFD, FD_CLOEXEC); }
        else { RS3(SYS_write, 2, "simshim: control fd missing\n", 28); RS1(SYS_exit_group, 97); } // never free-run a process that was meant to be lock-stepped
    }
    active = 1;
}

__attribute__((constructor)) static void shim_ctor(void) {
    shim_init();
    if (!active) return;
    const char *e = envs("SIMSHIM_LAYOUT");
    if (e) {
        unsigned long n = strtoul(e, 0, 10);
        if (n) {
            // move the heap (program break) and the mmap area by seed-derived amounts
            RS1(SYS_brk, (char *)RS1(SYS_brk, 0) + (n % 4093) * 4096);
            rsys(SYS_mmap, 0, ((n % 1021) + 1) * 65536, PROT_NONE, MAP_PRIVATE | MAP_ANONYMOUS | MAP_NORESERVE, -1, 0);
        }
    }
}

static uint64_t sm64(uint64_t *s) {
    uint64_t z = (*s += 0x9E3779B97F4A7C15ULL);
    z = (z ^ (z >> 30)) * 0xBF58476D1CE4E5B9ULL;
    z = (z ^ (z >> 27)) * 0x94D049BB133111EBULL;
    return z ^ (z >> 31);
}
static void fill_entropy(void *buf, size_t len) {
    uint64_t s = seed ^ 0x5EEDF00D5EEDF00DULL;
    unsigned char *b = buf;
    for (size_t i = 0; i < len; i += 8) {
        uint64_t v = sm64(&s);
        memcpy(b + i, &v, len - i < 8 ? len - i : 8);
    }
}

static int is_main(void) { return RS1(SYS_gettid, 0) == real_pid; }

static int under_root(const char *p) {
    if (!p) return 0;
    for (int i = 0; i < nroots; i++) {
        size_t l = strlen(roots[i]);
        if (strncmp(p, roots[i], l) == 0 && (p[l] == 0 || p[l] == '/' || roots[i][l - 1] == '/')) return 1;
    }
    return 0;
}
// resolve (dirfd, path) to something we can test against the roots
static int interesting_at(int dirfd, const char *p) {
    if (!active || nroots == 0 || !p) return 0;
    if (p[0] == '/') return under_root(p);
    if (dirfd == AT_FDCWD) {
        char cwd[512];
        long n = RS2(SYS_getcwd, cwd, sizeof cwd);
        if (n <= 0) return 0;
        return under_root(cwd);
    }
    return dirfd >= 0 && dirfd < MAXFD && tracked[dirfd] == 1;
}
static int interesting(const char *p) { return interesting_at(AT_FDCWD, p); }
// readable name of (dirfd, path) for event records
static const char *at_name(int dirfd, const char *p, char *buf, size_t n) {
    if (!p || p[0] == '/' || dirfd < 0 || dirfd >= MAXFD || tracked[dirfd] != 1) return p;
    snprintf(buf, n, "%s/%s", fdpath[dirfd], p);
    return buf;
}
static int fd_tracked(int fd) { return active && fd >= 0 && fd < MAXFD && tracked[fd] == 1; }

static void die_now(void) {
    RS2(SYS_kill, real_pid, SIGKILL);
    for (;;) RS1(SYS_pause, 0);
}

struct verdict { char kind; long arg; };

// An event of the main thread. cls = 'M' mutating or 'R' read-only.
static struct verdict event(char cls, const char *call, const char *arg, long len) {
    struct verdict v = {'G', 0};
    if (!active) return v;
    if (cls == 'R' && !gate_r) return v;
    if (ctl < 0 && logfd < 0 && nplan == 0 && repeat_from == 0 && failpath_errno == 0) return v;
    if (!is_main()) {
        if (logfd >= 0) {
            char b[700];
            int n = snprintf(b, sizeof b, "T %c %s %s\n", cls, call, arg ? arg : "");
            RS3(SYS_write, logfd, b, n);
        }
        return v;
    }
    long k = ++evidx;
    if (logfd >= 0) {
        char b[700];
        int n = snprintf(b, sizeof b, "%ld %c %s %s len=%ld\n", k, cls, call, arg ? arg : "", len);
        RS3(SYS_write, logfd, b, n);
    }
    for (int i = 0; i < nplan; i++)
        if (plan[i].k == k) {
            v.kind = plan[i].kind; v.arg = plan[i].arg;
            if (logfd >= 0) { char b[64]; int n = snprintf(b, sizeof b, "N fired-%c\n", v.kind); RS3(SYS_write, logfd, b, n); }
        }
    if (failpath_errno && cls == 'M' && arg && strstr(arg, failpath)) {
        v.kind = 'F'; v.arg = failpath_errno;
        if (logfd >= 0 && !failpath_fired++) { char b[64]; int n = snprintf(b, sizeof b, "N fired-P\n"); RS3(SYS_write, logfd, b, n); }
    }
    if (repeat_from > 0 && k >= repeat_from && k < repeat_from + repeat_n) {
        v.kind = 'F'; v.arg = repeat_errno;
        if (logfd >= 0 && k == repeat_from) { char b[64]; int n = snprintf(b, sizeof b, "N fired-E\n"); RS3(SYS_write, logfd, b, n); }
    }
    if (ctl >= 0) {
        char b[700];
        int n = snprintf(b, sizeof b, "%ld %c %s %s len=%ld", k, cls, call, arg ? arg : "", len);
        if (RS3(SYS_write, ctl, b, n) < 0) { ctl = -1; return v; }
        char r[64];
        long m;
        do { m = RS3(SYS_read, ctl, r, sizeof r - 1); } while (m == -EINTR);
        if (m <= 0) { ctl = -1; return v; }
        r[m] = 0;
        v.kind = r[0];
        v.arg = m > 2 ? atol(r + 2) : 0;
    }
    if (v.kind == 'K') die_now();
    return v;
}
// a non-event notification to the controller / log (tripwires)
static void note(const char *what) {
    if (!active || logfd < 0) return;
    char b[200];
    int n = snprintf(b, sizeof b, "N %s\n", what);
    RS3(SYS_write, logfd, b, n);
}

#define NEXT(name) \
    static __typeof__(name) *real; \
    if (!real) real = (__typeof__(name) *)dlsym(RTLD_NEXT, #name)

#define FAILRET(v, ret) \
    if ((v).kind == 'F') { errno = (int)(v).arg; return ret; }

// ---------------------------------------------------------------- entropy / identity / time
ssize_t getrandom(void *buf, size_t len, unsigned int flags) {
    NEXT(getrandom);
    shim_init();
    if (active && have_seed) { fill_entropy(buf, len); note("getrandom"); return (ssize_t)len; }
    return real(buf, len, flags);
}
int getentropy(void *buf, size_t len) {
    NEXT(getentropy);
    shim_init();
    if (active && have_seed) { fill_entropy(buf, len); note("getentropy"); return 0; }
    return real(buf, len);
}
pid_t getpid(void) {
    shim_init();
    if (active && simpid) return (pid_t)simpid;
    return (pid_t)RS1(SYS_getpid, 0);
}
static void fake_now(struct timespec *ts) {
    int64_t t = clock_base + (++tl_clock_calls) * clock_tick;
    ts->tv_sec = t / 1000000000LL;
    ts->tv_nsec = t % 1000000000LL;
}
int clock_gettime(clockid_t c, struct timespec *ts) {
    NEXT(clock_gettime);
    shim_init();
    if (active && have_clock && (c == CLOCK_REALTIME || c == CLOCK_MONOTONIC || c == CLOCK_MONOTONIC_RAW || c == CLOCK_BOOTTIME || c == CLOCK_REALTIME_COARSE || c == CLOCK_MONOTONIC_COARSE)) {
        fake_now(ts);
        return 0;
    }
    return real(c, ts);
}
int gettimeofday(struct timeval *tv, void *tz) {
    NEXT(gettimeofday);
    shim_init();
    if (active && have_clock && tv) {
        struct timespec ts;
        fake_now(&ts);
        tv->tv_sec = ts.tv_sec;
        tv->tv_usec = ts.tv_nsec / 1000;
        return 0;
    }
    return real(tv, tz);
}
time_t time(time_t *t) {
    NEXT(time);
    shim_init();
    if (active && have_clock) {
        struct timespec ts;
        fake_now(&ts);
        if (t) *t = ts.tv_sec;
        return ts.tv_sec;
    }
    return real(t);
}
int pthread_create(pthread_t *t, const pthread_attr_t *a, void *(*f)(void *), void *arg) {
    NEXT(pthread_create);
    shim_init();
    note("pthread_create");
    return real(t, a, f, arg);
}

// ---------------------------------------------------------------- open family
static const char *oflag_name(int f) {
    if (f & O_TRUNC) return "TRUNC";
    if (f & O_EXCL) return "EXCL";
    if (f & O_CREAT) return "CREAT";
    if ((f & O_ACCMODE) != O_RDONLY) return "WR";
    if (f & O_DIRECTORY) return "DIR";
    return "RD";
}
static int open_common(int dirfd, const char *p, int f, int m, int (*do_open)(int, const char *, int, int)) {
    shim_init();
    if (active && p && strcmp(p, "/dev/urandom") == 0 && have_seed) {
        int r = do_open(dirfd, p, f, m);
        if (r >= 0 && r < MAXFD) tracked[r] = 2;
        return r;
    }
    if (!interesting_at(dirfd, p)) {
        int r = do_open(dirfd, p, f, m);
        if (r >= 0 && r < MAXFD) tracked[r] = 0;
        return r;
    }
    char cls = (f & (O_CREAT | O_TRUNC)) || (f & O_ACCMODE) != O_RDONLY ? 'M' : 'R';
    char nb[420];
    const char *pn = at_name(dirfd, p, nb, sizeof nb);
    char a[600];
    snprintf(a, sizeof a, "%s %s", oflag_name(f), pn);
    struct verdict v = event(cls, "open", a, 0);
    FAILRET(v, -1);
    int r = do_open(dirfd, p, f, m);
    if (r >= 0 && r < MAXFD) { tracked[r] = 1; remember(r, pn); }
    return r;
}
static int do_openat_raw(int dirfd, const char *p, int f, int m) {
    long r = rsys(SYS_openat, dirfd, (long)p, f | O_LARGEFILE, m, 0, 0);
    if (r < 0) { errno = (int)-r; return -1; }
    return (int)r;
}
int open(const char *p, int f, ...) {
    va_list ap; va_start(ap, f); int m = va_arg(ap, int); va_end(ap);
    return open_common(AT_FDCWD, p, f, m, do_openat_raw);
}
int open64(const char *p, int f, ...) {
    va_list ap; va_start(ap, f); int m = va_arg(ap, int); va_end(ap);
    return open_common(AT_FDCWD, p, f, m, do_openat_raw);
}
int openat(int d, const char *p, int f, ...) {
    va_list ap; va_start(ap, f); int m = va_arg(ap, int); va_end(ap);
    return open_common(d, p, f, m, do_openat_raw);
}
int openat64(int d, const char *p, int f, ...) {
    va_list ap; va_start(ap, f); int m = va_arg(ap, int); va_end(ap);
    return open_common(d, p, f, m, do_openat_raw);
}
int creat(const char *p, mode_t m) { return open_common(AT_FDCWD, p, O_CREAT | O_WRONLY | O_TRUNC, m, do_openat_raw); }
int creat64(const char *p, mode_t m) { return open_common(AT_FDCWD, p, O_CREAT | O_WRONLY | O_TRUNC, m, do_openat_raw); }

int close(int fd) {
    NEXT(close);
    shim_init();
    if (fd_tracked(fd)) {
        char a[260]; snprintf(a, sizeof a, "fd=%d %s", fd, fdpath[fd]);
        event('R', "close", a, 0);
    }
    if (fd >= 0 && fd < MAXFD) tracked[fd] = 0;
    return real(fd);
}

// ---------------------------------------------------------------- data
ssize_t read(int fd, void *b, size_t n) {
    NEXT(read);
    shim_init();
    if (active && fd >= 0 && fd < MAXFD && tracked[fd] == 2) { fill_entropy(b, n); note("urandom-read"); return (ssize_t)n; }
    if (fd_tracked(fd)) {
        char a[260]; snprintf(a, sizeof a, "fd=%d %s", fd, fdpath[fd]);
        struct verdict v = event('R', "read", a, (long)n);
        FAILRET(v, -1);
    }
    return real(fd, b, n);
}
static ssize_t write_common(int fd, const void *b, size_t n, off_t off, int positional, const char *name) {
    NEXT(write);
    static __typeof__(pwrite) *realp;
    if (!realp) realp = (__typeof__(pwrite) *)dlsym(RTLD_NEXT, "pwrite64");
    shim_init();
    if (fd_tracked(fd)) {
        char a[260]; snprintf(a, sizeof a, "fd=%d %s", fd, fdpath[fd]);
        struct verdict v = event('M', name, a, (long)n);
        FAILRET(v, -1);
        if (v.kind == 'S' || v.kind == 'T') {
            size_t k = (size_t)v.arg < n ? (size_t)v.arg : n;
            ssize_t r = positional ? realp(fd, b, k, off) : real(fd, b, k);
            if (v.kind == 'T') die_now();
            return r;
        }
    }
    return positional ? realp(fd, b, n, off) : real(fd, b, n);
}
ssize_t write(int fd, const void *b, size_t n) { return write_common(fd, b, n, 0, 0, "write"); }
ssize_t pwrite(int fd, const void *b, size_t n, off_t o) { return write_common(fd, b, n, o, 1, "pwrite"); }
ssize_t pwrite64(int fd, const void *b, size_t n, off_t o) { return write_common(fd, b, n, o, 1, "pwrite"); }
ssize_t writev(int fd, const struct iovec *iov, int cnt) {
    NEXT(writev);
    shim_init();
    if (fd_tracked(fd)) {
        size_t tot = 0;
        for (int i = 0; i < cnt; i++) tot += iov[i].iov_len;
        char a[260]; snprintf(a, sizeof a, "fd=%d %s", fd, fdpath[fd]);
        struct verdict v = event('M', "writev", a, (long)tot);
        FAILRET(v, -1);
        if ((v.kind == 'S' || v.kind == 'T') && cnt > 0) {
            size_t k = (size_t)v.arg < iov[0].iov_len ? (size_t)v.arg : iov[0].iov_len;
            ssize_t r = RS3(SYS_write, fd, iov[0].iov_base, k);
            if (v.kind == 'T') die_now();
            if (r < 0) { errno = (int)-r; return -1; }
            return r;
        }
    }
    return real(fd, iov, cnt);
}
#define FD_EVENT(name, cls, decl, args) \
    int name decl { \
        NEXT(name); \
        shim_init(); \
        if (fd_tracked(fd)) { \
            char a[260]; snprintf(a, sizeof a, "fd=%d %s", fd, fdpath[fd]); \
            struct verdict v = event(cls, #name, a, 0); \
            FAILRET(v, -1); \
        } \
        return real args; \
    }
FD_EVENT(fsync, 'M', (int fd), (fd))
FD_EVENT(fdatasync, 'M', (int fd), (fd))
FD_EVENT(ftruncate, 'M', (int fd, off_t l), (fd, l))
FD_EVENT(ftruncate64, 'M', (int fd, off_t l), (fd, l))
FD_EVENT(fchmod, 'M', (int fd, mode_t m), (fd, m))

// ---------------------------------------------------------------- namespace
#define PATH_EVENT(name, cls, decl, pathexpr, args) \
    int name decl { \
        NEXT(name); \
        shim_init(); \
        if (interesting(pathexpr)) { \
            struct verdict v = event(cls, #name, pathexpr, 0); \
            FAILRET(v, -1); \
        } \
        return real args; \
    }
PATH_EVENT(unlink, 'M', (const char *p), p, (p))
PATH_EVENT(rmdir, 'M', (const char *p), p, (p))
PATH_EVENT(mkdir, 'M', (const char *p, mode_t m), p, (p, m))
PATH_EVENT(chmod, 'M', (const char *p, mode_t m), p, (p, m))
PATH_EVENT(rename, 'M', (const char *p, const char *q), q, (p, q))
PATH_EVENT(link, 'M', (const char *p, const char *q), q, (p, q))
PATH_EVENT(symlink, 'M', (const char *p, const char *q), q, (p, q))
PATH_EVENT(truncate, 'M', (const char *p, off_t l), p, (p, l))
PATH_EVENT(access, 'R', (const char *p, int m), p, (p, m))

int unlinkat(int d, const char *p, int f) {
    NEXT(unlinkat);
    shim_init();
    if (interesting_at(d, p)) { char nb[420]; struct verdict v = event('M', "unlinkat", at_name(d, p, nb, sizeof nb), 0); FAILRET(v, -1); }
    return real(d, p, f);
}
int mkdirat(int d, const char *p, mode_t m) {
    NEXT(mkdirat);
    shim_init();
    if (interesting_at(d, p)) { char nb[420]; struct verdict v = event('M', "mkdirat", at_name(d, p, nb, sizeof nb), 0); FAILRET(v, -1); }
    return real(d, p, m);
}
int renameat(int d1, const char *p, int d2, const char *q) {
    NEXT(renameat);
    shim_init();
    if (interesting_at(d2, q)) { char nb[420]; struct verdict v = event('M', "renameat", at_name(d2, q, nb, sizeof nb), 0); FAILRET(v, -1); }
    return real(d1, p, d2, q);
}
int renameat2(int d1, const char *p, int d2, const char *q, unsigned int fl) {
    NEXT(renameat2);
    shim_init();
    if (interesting_at(d2, q)) { char nb[420]; struct verdict v = event('M', "renameat2", at_name(d2, q, nb, sizeof nb), 0); FAILRET(v, -1); }
    return real(d1, p, d2, q, fl);
}
int linkat(int d1, const char *p, int d2, const char *q, int fl) {
    NEXT(linkat);
    shim_init();
    if (interesting_at(d2, q)) { char nb[420]; struct verdict v = event('M', "linkat", at_name(d2, q, nb, sizeof nb), 0); FAILRET(v, -1); }
    return real(d1, p, d2, q, fl);
}
int symlinkat(const char *p, int d, const char *q) {
    NEXT(symlinkat);
    shim_init();
    if (interesting_at(d, q)) { char nb[420]; struct verdict v = event('M', "symlinkat", at_name(d, q, nb, sizeof nb), 0); FAILRET(v, -1); }
    return real(p, d, q);
}

// ---------------------------------------------------------------- read-only namespace calls (events only with SIMSHIM_GATE=MR)
int stat(const char *p, struct stat *s) {
    NEXT(stat);
    shim_init();
    if (gate_r && interesting(p)) { struct verdict v = event('R', "stat", p, 0); FAILRET(v, -1); }
    return real(p, s);
}
int lstat(const char *p, struct stat *s) {
    NEXT(lstat);
    shim_init();
    if (gate_r && interesting(p)) { struct verdict v = event('R', "lstat", p, 0); FAILRET(v, -1); }
    return real(p, s);
}
int stat64(const char *p, struct stat64 *s) {
    NEXT(stat64);
    shim_init();
    if (gate_r && interesting(p)) { struct verdict v = event('R', "stat", p, 0); FAILRET(v, -1); }
    return real(p, s);
}
int lstat64(const char *p, struct stat64 *s) {
    NEXT(lstat64);
    shim_init();
    if (gate_r && interesting(p)) { struct verdict v = event('R', "lstat", p, 0); FAILRET(v, -1); }
    return real(p, s);
}
int statx(int d, const char *p, int fl, unsigned int mask, struct statx *s) {
    NEXT(statx);
    shim_init();
    if (gate_r && p && p[0] && interesting_at(d, p)) { struct verdict v = event('R', "statx", p, 0); FAILRET(v, -1); }
    return real(d, p, fl, mask, s);
}
DIR *opendir(const char *p) {
    NEXT(opendir);
    shim_init();
    if (gate_r && interesting(p)) { struct verdict v = event('R', "opendir", p, 0); FAILRET(v, NULL); }
    DIR *r = real(p);
    if (r && interesting(p)) { int fd = dirfd(r); if (fd >= 0 && fd < MAXFD) tracked[fd] = 1; }
    return r;
}
DIR *fdopendir(int fd) {
    NEXT(fdopendir);
    return real(fd);
}
struct dirent *readdir(DIR *d) {
    NEXT(readdir);
    shim_init();
    if (gate_r && d && fd_tracked(dirfd(d))) event('R', "readdir", "", 0);
    return real(d);
}
struct dirent64 *readdir64(DIR *d) {
    NEXT(readdir64);
    shim_init();
    if (gate_r && d && fd_tracked(dirfd(d))) event('R', "readdir", "", 0);
    return real(d);
}
int closedir(DIR *d) {
    NEXT(closedir);
    if (d) { int fd = dirfd(d); if (fd >= 0 && fd < MAXFD) tracked[fd] = 0; }
    return real(d);
}

// ---------------------------------------------------------------- helper processes
int posix_spawnp(pid_t *pid, const char *f, const posix_spawn_file_actions_t *fa, const posix_spawnattr_t *at, char *const argv[], char *const envp[]) {
    NEXT(posix_spawnp);
    shim_init();
    if (active && (ctl >= 0 || logfd >= 0)) {
        char a[128];
        snprintf(a, sizeof a, "%s %s %s", f, argv && argv[1] ? argv[1] : "", argv && argv[1] && argv[2] ? argv[2] : "");
        struct verdict v = event('R', "spawn", a, 0);
        if (v.kind == 'F') return (int)v.arg;
    }
    return real(pid, f, fa, at, argv, envp);
}
int posix_spawn(pid_t *pid, const char *f, const posix_spawn_file_actions_t *fa, const posix_spawnattr_t *at, char *const argv[], char *const envp[]) {
    NEXT(posix_spawn);
    shim_init();
    if (active && (ctl >= 0 || logfd >= 0)) {
        char a[128];
        snprintf(a, sizeof a, "%s %s %s", f, argv && argv[1] ? argv[1] : "", argv && argv[1] && argv[2] ? argv[2] : "");
        struct verdict v = event('R', "spawn", a, 0);
        if (v.kind == 'F') return (int)v.arg;
    }
    return real(pid, f, fa, at, argv, envp);
}

// ---------------------------------------------------------------- markers from cooperating drivers: faccessat-free side channel
// A driver calls sim_mark("text") (resolved with dlsym(RTLD_DEFAULT, "sim_mark")); it is an 'R'-class
// event that is always delivered (even with SIMSHIM_GATE=M) so operation boundaries are in the history.
void sim_mark(const char *text) {
    shim_init();
    if (!active) return;
    int saved = gate_r;
    gate_r = 1;
    event('R', "mark", text, 0);
    gate_r = saved;
}
